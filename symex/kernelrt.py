"""Runtime for the lowered set_operations.pyx: C coercions, memoryviews with
bounds obligations (C09), and the small NumPy surface the kernels use.

Lengths are concrete on every path (the harness forks them); elements are
ints or SInt.  ``STRICT`` decides what an out-of-range access means:
  strict  -> Violation("OOB ...")            (C09)
  lenient -> a read yields a fresh unconstrained uint32, a write is dropped
             (C08: garbage that does not reach the result is not a C08 matter)
"""
import z3

from .engine import E, HarnessError, Violation
from . import scalars as S
from .scalars import SInt, SBool, it, mkint, mkbool

U32 = 2 ** 32


class State:
    strict = True
    directives = {}
    current = []          # stack of function names being executed
    oob_events = []
    accesses = 0


def _wrap(v, bits, signed):
    if isinstance(v, SBool):
        v = v._i()
    if isinstance(v, NpScalar):
        v = v.v
    if isinstance(v, SInt):
        t = v.t % (2 ** bits)
        if signed:
            t = z3.If(t >= 2 ** (bits - 1), t - 2 ** bits, t)
        return mkint(t)
    v = int(v) % (2 ** bits)
    if signed and v >= 2 ** (bits - 1):
        v -= 2 ** bits
    return v


class NpScalar:
    """NumPy integer scalar (value + dtype name) with NEP-50 arithmetic."""
    BITS = {"uint32": (32, False), "int64": (64, True), "uint8": (8, False)}

    def __init__(self, v, dt):
        self.v = v
        self.dt = dt

    def _r(self, v):
        b, s = self.BITS[self.dt]
        return NpScalar(_wrap(v, b, s), self.dt)

    def _o(self, o):
        if isinstance(o, NpScalar):
            if o.dt != self.dt:
                raise HarnessError("NpScalar mixed dtypes %s %s" % (self.dt, o.dt))
            return o.v
        return o

    def __add__(self, o):
        return self._r(S.e_add(self.v, self._o(o)))

    __radd__ = __add__

    def __sub__(self, o):
        return self._r(S.e_sub(self.v, self._o(o)))

    def __mul__(self, o):
        return self._r(S.e_mul(self.v, self._o(o)))

    __rmul__ = __mul__

    def __lt__(self, o):
        return S.e_lt(self.v, self._o(o))

    def __le__(self, o):
        return S.e_le(self.v, self._o(o))

    def __gt__(self, o):
        return S.e_lt(self._o(o), self.v)

    def __ge__(self, o):
        return S.e_le(self._o(o), self.v)

    def __eq__(self, o):
        return S.e_eq(self.v, self._o(o))

    def __ne__(self, o):
        return S.e_ne(self.v, self._o(o))

    def __hash__(self):
        return hash(self.v)

    def __index__(self):
        return self.v.__index__() if isinstance(self.v, SInt) else int(self.v)

    __int__ = __index__

    def __bool__(self):
        return bool(S.e_ne(self.v, 0))

    def __repr__(self):
        return "<NpScalar %s>" % self.dt


def c_coerce(ty, value, func, name, lineno):
    if ty == "int":
        return _wrap(value, 32, True)
    if ty == "long":
        return _wrap(value, 64, True)
    if ty == "uint32":
        return _wrap(value, 32, False)
    if ty == "list":
        if not isinstance(value, list):
            raise TypeError("Argument %r has incorrect type (expected list)" % name)
        return value
    if ty.endswith("[:]"):
        base = ty.replace("const ", "")[:-3]
        want = {"uint32": "uint32", "long": "int64"}[base]
        if isinstance(value, View):
            if value.arr.dt != want:
                raise ValueError("Buffer dtype mismatch")
            return value
        if isinstance(value, KArr):
            if value.dt != want:
                raise ValueError("Buffer dtype mismatch, expected %r but got %r" % (want, value.dt))
            return View(value, 0, len(value.e), func, name, readonly=ty.startswith("const"))
        if value is None:
            # Cython accepts None for memoryview arguments (not None is not declared)
            return View(None, 0, 0, func, name)
        raise TypeError("a bytes-like object is required, not %r" % type(value).__name__)
    raise HarnessError("c_coerce: unknown C type %r" % ty)


class KArr:
    """1-D array: list of elements (int | SInt), dtype name."""

    def __init__(self, e, dt):
        self.e = e
        self.dt = dt
        self.base = None

    @property
    def shape(self):
        return (len(self.e),)

    ndim = 1

    @property
    def dtype(self):
        return self.dt

    def __len__(self):
        return len(self.e)

    def copy(self):
        return KArr(list(self.e), self.dt)

    def _slice(self, k):
        lo, hi, st = [None if v is None else (v.__index__() if not isinstance(v, int) else v)
                      for v in (k.start, k.stop, k.step)]
        return slice(lo, hi, st)

    def __getitem__(self, k):
        if isinstance(k, slice):
            r = KSlice(self, self._slice(k))
            return r
        if isinstance(k, (KArr, View, list)):
            return self._take(k)
        k = k.__index__() if not isinstance(k, int) else k
        return NpScalar(self.e[k], self.dt)       # Python-level indexing: IndexError natively

    def __setitem__(self, k, v):
        if isinstance(k, slice):
            idx = range(*self._slice(k).indices(len(self.e)))
            vals = seq_elems(v)
            if len(vals) != len(idx):
                if len(vals) == 1:
                    vals = vals * len(idx)
                else:
                    raise ValueError("could not broadcast input array from shape (%d,) into shape (%d,)" % (len(vals), len(idx)))
            for i, x in zip(idx, vals):
                self.e[i] = x
            return
        k = k.__index__() if not isinstance(k, int) else k
        self.e[k] = v.v if isinstance(v, NpScalar) else v

    def __add__(self, o):
        oe = seq_elems(o)
        if len(oe) != len(self.e):
            raise ValueError("operands could not be broadcast together")
        b, s = NpScalar.BITS[self.dt]
        return KArr([_wrap(S.e_add(x, y), b, s) for x, y in zip(self.e, oe)], self.dt)

    def tolist(self):
        return list(self.e)

    # element-wise comparisons (NumPy semantics for 1-D arrays and scalars); elements of the result are bool | SBool
    def _cmp(self, o, f):
        oe = seq_elems(o) if isinstance(o, (KArr, View, list, tuple)) else [o.v if isinstance(o, NpScalar) else o] * len(self.e)
        if len(oe) != len(self.e):
            if len(oe) == 1:
                oe = oe * len(self.e)
            elif len(self.e) == 1:
                return KArr([f(self.e[0], y) for y in oe], "bool")
            else:
                raise ValueError("operands could not be broadcast together with shapes (%d,) (%d,)" % (len(self.e), len(oe)))
        return KArr([f(x, y) for x, y in zip(self.e, oe)], "bool")

    def __lt__(self, o): return self._cmp(o, S.e_lt)
    def __le__(self, o): return self._cmp(o, S.e_le)
    def __gt__(self, o): return self._cmp(o, S.e_gt)
    def __ge__(self, o): return self._cmp(o, S.e_ge)
    def __eq__(self, o): return self._cmp(o, S.e_eq)
    def __ne__(self, o): return self._cmp(o, S.e_ne)
    __hash__ = None

    def __invert__(self):
        if self.dt != "bool":
            raise HarnessError("kernel numpy: ~ on a %s array" % self.dt)
        return KArr([S.e_not(x) for x in self.e], "bool")

    def __and__(self, o):
        return KArr([S.e_and(x, y) for x, y in zip(self.e, seq_elems(o))], "bool")

    def __or__(self, o):
        return KArr([S.e_or(x, y) for x, y in zip(self.e, seq_elems(o))], "bool")

    def any(self):
        return any(_decide(x) for x in self.e)

    def all(self):
        return all(_decide(x) for x in self.e)

    def _take(self, k):
        """Fancy indexing: boolean mask (each element decided: the result length is structure) or integer positions."""
        ke = seq_elems(k)
        kdt = k.arr.dt if isinstance(k, View) else getattr(k, "dt", "int64")
        if kdt == "bool":
            if len(ke) != len(self.e):
                raise IndexError("boolean index did not match indexed array along axis 0; size of axis is %d but size of corresponding boolean axis is %d" % (len(self.e), len(ke)))
            return KArr([x for x, b in zip(self.e, ke) if _decide(b)], self.dt)
        out = []
        n = len(self.e)
        for i in ke:
            i = i if isinstance(i, int) else E().concretize(i.t)
            if not -n <= i < n:
                raise IndexError("index %d is out of bounds for axis 0 with size %d" % (i, n))
            out.append(self.e[i])
        return KArr(out, self.dt)


class KSlice(KArr):
    """View-like slice result (shares elements by reference to the base list for writes)."""

    def __init__(self, base, sl):
        self.base = base
        self.sl = sl
        self.dt = base.dt

    @property
    def e(self):
        return self.base.e[self.sl]

    def copy(self):
        return KArr(list(self.e), self.dt)


def seq_elems(v):
    if isinstance(v, View):
        return [v.arr.e[v.lo + i] for i in range(v.n)]
    if isinstance(v, KArr):
        return list(v.e)
    if isinstance(v, (list, tuple)):
        return [x.v if isinstance(x, NpScalar) else x for x in v]
    raise HarnessError("seq_elems: %r" % type(v))


class View:
    """Typed memoryview over a KArr window; indexing carries the C09 obligation."""

    def __init__(self, arr, lo, n, func, name, readonly=False):
        self.arr = arr
        self.lo = lo
        self.n = n
        self.func = func
        self.name = name
        self.readonly = readonly

    @property
    def shape(self):
        return (self.n,)

    def __len__(self):
        return self.n

    def _checked(self):
        d = State.directives.get(self.func, {})
        return d.get("boundscheck", True), d.get("wraparound", True)

    def _index(self, i, what):
        State.accesses += 1
        bc, wa = self._checked()
        if isinstance(i, NpScalar):
            i = i.v
        if isinstance(i, SBool):
            i = i._i()
        if isinstance(i, SInt):
            eng = E()
            t = i.t
            if wa:
                t = z3.If(t < 0, t + self.n, t)
            ok = z3.And(t >= 0, t < self.n)
            if bc:
                if not eng.branch(ok):
                    raise IndexError("Out of bounds on buffer access (axis 0)")
            elif State.strict:
                eng.assert_(ok, "OOB %s %s in %s" % (what, self.name, self.func))
            elif not eng.branch(ok):
                return None
            return eng.concretize(t)
        i = int(i)
        if wa and i < 0:
            i += self.n
        if 0 <= i < self.n:
            return i
        if bc:
            raise IndexError("Out of bounds on buffer access (axis 0)")
        State.oob_events.append((self.func, self.name, what, i, self.n))
        if State.strict:
            eng = E()
            m = eng.path_model()
            if m is not None:
                raise Violation("OOB %s %s[%d] len %d in %s" % (what, self.name, i, self.n, self.func), m)
            from .engine import Abort
            raise Abort()
        return None

    def __getitem__(self, i):
        if isinstance(i, slice):
            lo, hi, st = i.indices(self.n) if all(isinstance(v, (int, type(None))) for v in (i.start, i.stop, i.step)) \
                else slice(*[None if v is None else v.__index__() for v in (i.start, i.stop, i.step)]).indices(self.n)
            if st != 1:
                raise HarnessError("strided memoryview slice")
            return View(self.arr, self.lo + lo, max(0, hi - lo), self.func, self.name, self.readonly)
        k = self._index(i, "read")
        if k is None:
            eng = E()
            g = z3.Int(S.fresh_name("garbage"))
            eng.assume(g >= 0, g < U32)
            return SInt(g)
        return self.arr.e[self.lo + k]

    def __setitem__(self, i, v):
        if self.readonly:
            raise TypeError("Cannot assign to read-only memoryview")
        k = self._index(i, "write")
        if k is None:
            return
        b, s = NpScalar.BITS[self.arr.dt]
        self.arr.e[self.lo + k] = _wrap(v, b, s)


class _KNumpyMeta(type):
    def __getattr__(cls, name):
        # value-independent helpers (iinfo, dtype objects, ...) come from real NumPy
        import numpy as _rnp
        if name.startswith("__"):
            raise AttributeError(name)
        real = getattr(_rnp, name)
        if name in ("iinfo", "finfo", "dtype", "intp", "uint64", "int32", "uint8", "uint16", "nan", "inf"):
            return real
        raise HarnessError("kernel numpy: numpy.%s is not modelled" % name)


class KNumpy(metaclass=_KNumpyMeta):
    """The NumPy surface used inside set_operations.pyx."""
    uint32 = "uint32"
    int64 = "int64"

    @staticmethod
    def _dt(dtype):
        if dtype in ("uint32", "int64"):
            return dtype
        if dtype is int:
            return "int64"
        raise HarnessError("kernel numpy dtype %r" % (dtype,))

    @staticmethod
    def empty(n, dtype=None):
        n = n.__index__() if not isinstance(n, int) else n
        if n < 0:
            raise ValueError("negative dimensions are not allowed")
        # uninitialised memory: arbitrary values
        eng = E()
        es = []
        for _ in range(n):
            g = z3.Int(S.fresh_name("uninit"))
            eng.assume(g >= 0, g < U32)
            es.append(SInt(g))
        return KArr(es, KNumpy._dt(dtype))

    @staticmethod
    def zeros(n, dtype=None):
        n = n.__index__() if not isinstance(n, int) else n
        return KArr([0] * n, KNumpy._dt(dtype))

    @staticmethod
    def cumsum(a):
        es = seq_elems(a)
        out = []
        acc = 0
        for x in es:
            acc = S.e_add(acc, x)
            out.append(acc)
        return KArr(out, "int64")

    @staticmethod
    def asarray(a, dtype=None):
        if isinstance(a, View):
            if a.arr is None:
                raise HarnessError("asarray(None view)")
            if a.lo == 0 and a.n == len(a.arr.e):
                return a.arr
            return KArr(seq_elems(a), a.arr.dt)
        if isinstance(a, KArr):
            return a
        return KNumpy.array(a, dtype)

    @staticmethod
    def array(a, dtype=None):
        es = seq_elems(a)
        dt = KNumpy._dt(dtype if dtype is not None else int)
        b, s = NpScalar.BITS[dt]
        return KArr([_wrap(x, b, s) for x in es], dt)

    # ---- vectorised helpers a kernel (or a Python-level helper beside it) may use on sorted arrays
    @staticmethod
    def searchsorted(a, v, side="left"):
        ae = seq_elems(a)
        scalar = not isinstance(v, (KArr, View, list, tuple))
        ve = [v.v if isinstance(v, NpScalar) else v] if scalar else seq_elems(v)
        less = S.e_lt if side == "left" else S.e_le
        out = []
        for x in ve:
            lo, hi = 0, len(ae)
            while lo < hi:                      # NumPy's binary search; each comparison is a solver-decided branch
                mid = (lo + hi) // 2
                if _decide(less(ae[mid], x)):
                    lo = mid + 1
                else:
                    hi = mid
            out.append(lo)
        return NpScalar(out[0], "int64") if scalar else KArr(out, "int64")

    @staticmethod
    def _ew(a, b, f):
        ae = seq_elems(a) if isinstance(a, (KArr, View, list, tuple)) else None
        be = seq_elems(b) if isinstance(b, (KArr, View, list, tuple)) else None
        sc = lambda x: x.v if isinstance(x, NpScalar) else x
        if ae is None and be is None:
            return f(sc(a), sc(b))
        if ae is None:
            ae = [sc(a)] * len(be)
        if be is None:
            be = [sc(b)] * len(ae)
        if len(ae) != len(be):
            raise ValueError("operands could not be broadcast together")
        dt = next((x.arr.dt if isinstance(x, View) else x.dt for x in (a, b) if isinstance(x, (KArr, View))), "int64")
        return KArr([f(x, y) for x, y in zip(ae, be)], dt)

    @staticmethod
    def minimum(a, b):
        return KNumpy._ew(a, b, S.e_min)

    @staticmethod
    def maximum(a, b):
        return KNumpy._ew(a, b, S.e_max)

    @staticmethod
    def clip(a, lo, hi):
        return KNumpy.minimum(KNumpy.maximum(a, lo), hi)

    @staticmethod
    def insert(arr, obj, values):
        ae = seq_elems(arr)
        dt = arr.arr.dt if isinstance(arr, View) else arr.dt
        scalar = not isinstance(obj, (KArr, View, list, tuple))
        pos = [obj] if scalar else seq_elems(obj)
        pos = [(p.v if isinstance(p, NpScalar) else p) for p in pos]
        pos = [p if isinstance(p, int) else E().concretize(p.t) for p in pos]
        vals = seq_elems(values) if isinstance(values, (KArr, View, list, tuple)) else [values.v if isinstance(values, NpScalar) else values]
        if len(vals) == 1 and len(pos) > 1:
            vals = vals * len(pos)
        if scalar and len(vals) > 1:
            pos = pos * len(vals)
        if len(vals) != len(pos):
            raise ValueError("shape mismatch: value array could not be broadcast to indexing result")
        n = len(ae)
        for p in pos:
            if not -n <= p <= n:
                raise IndexError("index %d is out of bounds for axis 0 with size %d" % (p, n))
        pos = [p + n if p < 0 else p for p in pos]
        b, sg = NpScalar.BITS[dt]
        order = sorted(range(len(pos)), key=lambda i: pos[i])      # stable, as numpy.insert (mergesort on the positions)
        out, j = [], 0
        for i in range(n + 1):
            while j < len(order) and pos[order[j]] == i:
                out.append(_wrap(vals[order[j]], b, sg))
                j += 1
            if i < n:
                out.append(ae[i])
        return KArr(out, dt)

    @staticmethod
    def flatnonzero(a):
        return KArr([i for i, x in enumerate(seq_elems(a)) if _decide(x)], "int64")

    @staticmethod
    def arange(*a, dtype=None):
        return KArr(list(sx_range(*a)), KNumpy._dt(dtype) if dtype is not None else "int64")

    @staticmethod
    def concatenate(parts):
        parts = list(parts)
        if not parts:
            raise ValueError("need at least one array to concatenate")
        es = []
        dts = set()
        for p in parts:
            es.extend(seq_elems(p))
            if isinstance(p, View):
                dts.add(p.arr.dt)
            elif isinstance(p, KArr):
                dts.add(p.dt)
            else:
                dts.add("int64")
        dt = "uint32" if dts == {"uint32"} else "int64"
        return KArr(es, dt)


def sx_len(x):
    return len(x)


def _decide(c):
    return c if isinstance(c, bool) else bool(c)


def sx_min(*a):
    if len(a) == 1:
        a = list(a[0])
    r = a[0]
    for x in a[1:]:
        if _decide(x < r):
            r = x
    return r


def sx_max(*a):
    if len(a) == 1:
        a = list(a[0])
    r = a[0]
    for x in a[1:]:
        if _decide(x > r):
            r = x
    return r


def sx_range(*a):
    return range(*[x.__index__() if not isinstance(x, int) else x for x in a])
