"""Re-decide dumped verification conditions with cvc5 (second solver, DESIGN.md section 2.8 item 4)."""
import time


def redecide(texts, timeout_ms=20000, limit=400):
    """Each text is an SMT-LIB2 benchmark z3 answered `unsat`.  Returns counts; any `sat` is a disagreement."""
    import cvc5
    out = {"solver": "cvc5 " + getattr(cvc5, "__version__", "?"), "checked": 0, "unsat": 0, "sat": 0, "unknown": 0, "errors": 0, "wall_s": 0.0}
    t0 = time.time()
    step = max(1, len(texts) // limit)
    for text in texts[::step][:limit]:
        try:
            slv = cvc5.Solver()
            slv.setOption("tlimit-per", str(timeout_ms))
            slv.setLogic("ALL")
            parser = cvc5.InputParser(slv)
            parser.setStringInput(cvc5.InputLanguage.SMT_LIB_2_6, text, "vc")
            sm = parser.getSymbolManager()
            res = None
            while True:
                cmd = parser.nextCommand()
                if cmd.isNull():
                    break
                r = cmd.invoke(slv, sm)
                rs = str(r).strip()
                if rs in ("sat", "unsat", "unknown"):
                    res = rs
            out["checked"] += 1
            out[res if res in ("sat", "unsat") else "unknown"] += 1
        except Exception as ex:
            out["errors"] += 1
            out.setdefault("first_error", "%s: %s" % (type(ex).__name__, str(ex)[:200]))
    out["wall_s"] = round(time.time() - t0, 2)
    return out
