"""Lower set_operations.pyx to Python (DESIGN.md section 2.1).

Line-level translation; every construct the translator does not know is a
HarnessError (never a silent skip).  Result: Python source, a C type table
{(func, var): ctype} and per-function directives.  An AST pass then wraps
assignments to C-typed locals in ``__c_coerce`` and leaves memoryview accesses
to the runtime View class (bounds-checked there, per directives).
"""
import ast
import re

from .engine import HarnessError

# names brought in by `from <module> cimport ...` (C constants the runtime can supply)
CIMPORTED = []
C_CONSTANTS = {"UINT32_MAX": 2 ** 32 - 1, "INT32_MAX": 2 ** 31 - 1, "INT32_MIN": -(2 ** 31), "UINT64_MAX": 2 ** 64 - 1,
               "INT64_MAX": 2 ** 63 - 1, "INT64_MIN": -(2 ** 63), "INT_MAX": 2 ** 31 - 1, "INT_MIN": -(2 ** 31),
               "UINT_MAX": 2 ** 32 - 1, "LONG_MAX": 2 ** 63 - 1, "UINT8_MAX": 255, "UINT16_MAX": 65535}


def cimported_namespace():
    ns = {}
    for module, name, alias in CIMPORTED:
        if name not in C_CONSTANTS:
            raise HarnessError("lower_pyx: cimported name %s.%s is not modelled" % (module, name))
        ns[alias] = C_CONSTANTS[name]
    return ns


KNOWN_CTYPES = {"int", "long", "uint32", "list", "uint32[:]", "long[:]",
                "const uint32[:]", "const long[:]"}


def lower(src):
    del CIMPORTED[:]
    out = []
    types = {}
    directives = {}
    func = None
    pending = []
    enum_ind = None      # inside an anonymous `cdef enum:` block: indentation of its header
    enum_next = 0
    for ln in src.splitlines():
        s = ln.strip()
        ind = ln[:len(ln) - len(ln.lstrip())]
        if enum_ind is not None:
            if not s or s.startswith("#"):
                out.append(ln)
                continue
            if len(ind) > len(enum_ind):
                # enumerators: NAME [= constant expression][,]  ->  module-level integer constants
                body = s.split("#")[0].strip().rstrip(",")
                stm = []
                for item in [x.strip() for x in body.split(",") if x.strip()]:
                    m = re.match(r"(\w+)(?:\s*=\s*(.+))?$", item)
                    if not m:
                        raise HarnessError("lower_pyx: enumerator %r" % item)
                    if m.group(2) is not None:
                        stm.append("%s = %s" % (m.group(1), m.group(2)))
                        enum_next = None
                        last = m.group(1)
                    else:
                        stm.append("%s = %s" % (m.group(1), enum_next if enum_next is not None else last + " + 1"))
                        last = m.group(1)
                        enum_next = None
                out.append(enum_ind + "; ".join(stm))
                continue
            enum_ind = None
        m = re.match(r"cdef\s+enum(?:\s+\w+)?\s*:\s*(?:#.*)?$", s)
        if m:
            enum_ind, enum_next = ind, 0
            out.append(ind + "pass  # " + s)
            continue
        m = re.match(r"DEF\s+(\w+)\s*=\s*(.+)$", s)
        if m:
            out.append(ind + "%s = %s" % (m.group(1), m.group(2)))
            continue
        if s.startswith("cimport ") or s.startswith("ctypedef "):
            out.append(ind + "pass  # " + s)
            continue
        m = re.match(r"from\s+([\w.]+)\s+cimport\s+(.+)$", s)
        if m:
            for nm in m.group(2).split(","):
                nm = nm.strip().split(" as ")
                CIMPORTED.append((m.group(1), nm[0].strip(), nm[-1].strip()))
            out.append(ind + "pass  # " + s)
            continue
        m = re.match(r"@cython\.(\w+)\((\w+)\)", s)
        if m:
            pending.append((m.group(1), m.group(2) == "True"))
            out.append(ind + "# " + s)
            continue
        if s.startswith("@"):
            raise HarnessError("lower_pyx: unknown decorator %r" % s)
        m = re.match(r"(?:cp?def\s+(?:inline\s+)?(?:[\w\[\]:]+\s+)?|def\s+)(\w+)\((.*)\)\s*(?:nogil\s*)?(?:except\s*[^:]*)?:\s*$", s)
        if m and (s.startswith("def ") or s.startswith("cdef ") or s.startswith("cpdef ")) and "=" not in s.split("(")[0]:
            func = m.group(1)
            args = []
            for a in re.split(r",(?![^\[\(]*[\]\)])", m.group(2)):
                a = a.strip()
                if not a:
                    continue
                left = a.split("=")[0].split()
                name = left[-1]
                if len(left) > 1:
                    ty = " ".join(left[:-1])
                    if ty not in KNOWN_CTYPES:
                        raise HarnessError("lower_pyx: unknown parameter type %r" % ty)
                    types[(func, name)] = ty
                args.append(name + ("=" + a.split("=", 1)[1] if "=" in a else ""))
            directives[func] = dict(pending)
            pending = []
            out.append(ind + "def %s(%s):" % (func, ", ".join(args)))
            continue
        m = re.match(r"cdef\s+((?:const\s+)?\w+(?:\[:\])?)\s+(.*)", s)
        if m:
            ty = m.group(1)
            if ty not in KNOWN_CTYPES:
                raise HarnessError("lower_pyx: unknown C type %r in %r" % (ty, s))
            decls = [d.strip() for d in re.split(r",(?![^\[\(]*[\]\)])", m.group(2))]
            stm = []
            for d in decls:
                if "=" in d:
                    n, e = d.split("=", 1)
                    n = n.strip()
                    types[(func, n)] = ty
                    stm.append("%s = %s" % (n, e.strip()))
                else:
                    types[(func, d)] = ty
            out.append(ind + ("; ".join(stm) if stm else "pass"))
            continue
        if s.startswith("cdef") or s.startswith("cpdef"):
            raise HarnessError("lower_pyx: unknown cdef form %r" % s)
        if re.match(r"with\s+(nogil|gil)\s*:", s):
            out.append(ind + "if True:  # " + s)
            continue
        if re.match(r"for\s+\w+\s+in\s+prange", s) or "<" in s and re.search(r"<\s*\w+\s*\*?>", s):
            raise HarnessError("lower_pyx: unsupported construct %r" % s)
        out.append(ln)
    code = "\n".join(out) + "\n"
    try:
        tree = ast.parse(code)
    except SyntaxError as ex:
        raise HarnessError("lower_pyx: lowered text does not parse: %s" % ex)
    return code, types, directives


class _Coerce(ast.NodeTransformer):
    """x = e  ->  x = __c_coerce('ctype', e, 'func', 'x', lineno) for C-typed locals."""

    def __init__(self, types):
        self.types = types
        self.func = None

    def visit_FunctionDef(self, node):
        prev, self.func = self.func, node.name
        # coerce typed parameters on entry
        pre = []
        for a in node.args.args:
            ty = self.types.get((node.name, a.arg))
            if ty:
                pre.append(ast.Assign(
                    targets=[ast.Name(a.arg, ast.Store())],
                    value=self._call(ty, ast.Name(a.arg, ast.Load()), a.arg, node.lineno)))
        self.generic_visit(node)
        # keep docstring first
        body = node.body
        k = 1 if (body and isinstance(body[0], ast.Expr) and isinstance(getattr(body[0], "value", None), ast.Constant)) else 0
        node.body = body[:k] + pre + body[k:]
        self.func = prev
        return node

    def _call(self, ty, value, name, lineno):
        return ast.Call(ast.Name("__c_coerce", ast.Load()),
                        [ast.Constant(ty), value, ast.Constant(self.func), ast.Constant(name), ast.Constant(lineno)], [])

    def visit_Assign(self, node):
        self.generic_visit(node)
        if len(node.targets) == 1 and isinstance(node.targets[0], ast.Name):
            ty = self.types.get((self.func, node.targets[0].id))
            if ty:
                node.value = self._call(ty, node.value, node.targets[0].id, node.lineno)
        return node

    def visit_AugAssign(self, node):
        self.generic_visit(node)
        if isinstance(node.target, ast.Name):
            ty = self.types.get((self.func, node.target.id))
            if ty:
                new = ast.Assign(
                    targets=[ast.Name(node.target.id, ast.Store())],
                    value=self._call(ty, ast.BinOp(ast.Name(node.target.id, ast.Load()), node.op, node.value),
                                     node.target.id, node.lineno))
                return ast.copy_location(new, node)
        return node

    def visit_For(self, node):
        self.generic_visit(node)
        # for arrnum in range(...): arrnum is a typed local -> coerce at loop head
        if isinstance(node.target, ast.Name):
            ty = self.types.get((self.func, node.target.id))
            if ty:
                node.body.insert(0, ast.Assign(
                    targets=[ast.Name(node.target.id, ast.Store())],
                    value=self._call(ty, ast.Name(node.target.id, ast.Load()), node.target.id, node.lineno)))
        return node


class _Len(ast.NodeTransformer):
    def visit_Call(self, node):
        self.generic_visit(node)
        if isinstance(node.func, ast.Name) and node.func.id in ("len", "min", "max", "range"):
            node.func = ast.Name("__sx_" + node.func.id, ast.Load())
        return node


def compile_lowered(src, filename):
    code, types, directives = lower(src)
    tree = ast.parse(code)
    tree = _Coerce(types).visit(tree)
    tree = _Len().visit(tree)
    ast.fix_missing_locations(tree)
    return compile(tree, filename, "exec"), code, types, directives
