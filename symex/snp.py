"""Symbolic NumPy shim (DESIGN.md section 2.3).

ndarray = real NumPy *object* array holding scalars (plain Python values or the symbolic
scalars of symex.scalars) + a real NumPy dtype (+ an optional symbolic length of axis 0).
Shape, broadcasting, view-ness and dtype-only behaviour come from real NumPy: slicing is
delegated to the object array, and result dtypes / dtype-only exceptions come from *shadow
execution* of the same operation on zero-filled real arrays.  Only element values are symbolic.
"""
import math
import operator
from fractions import Fraction

import numpy as rnp
import z3

from . import scalars as S
from .engine import E, HarnessError, Abort
from .scalars import (SBool, SInt, SReal, SKey, is_sym, it, bt, mkint, mkbool, mkreal,
                      e_add, e_sub, e_mul, e_div, e_lt, e_le, e_eq, e_ne, e_and, e_or, e_not,
                      e_ite, e_isnan, e_isinf, cfrac)

def _f(fn, nin, nout=1):
    """frompyfunc that keeps 0-d object arrays as arrays (NumPy returns the bare element)."""
    uf = rnp.frompyfunc(fn, nin, nout)

    def call(*args):
        r = uf(*args)
        if not isinstance(r, rnp.ndarray):
            for a in args:
                if isinstance(a, rnp.ndarray):
                    return _fill_obj((), r)
        return r
    return call


# ------------------------------------------------------------------ element casting
def cast(v, d):
    """Value of scalar v stored into an array of real dtype d (C cast semantics)."""
    k = d.kind
    if isinstance(v, ndarray):
        v = v.scalar_value()
    elif isinstance(v, (rnp.datetime64, rnp.timedelta64)) and k in "Mm":
        v = float("nan") if rnp.isnat(v) else Fraction(int(v.astype(d).astype(rnp.int64)))
    elif isinstance(v, rnp.generic):
        v = from_real_scalar(v)
    if k == "O":
        return v
    if k in "Mm":
        # datetime64 / timedelta64: an integer count of units, NaT modelled by the NaN flag (NumPy gives NaT the
        # same comparison, max/min and isnan behaviour).  Errors of item assignment (a Python float into a
        # datetime array) come from the shadow execution on the real dtype.
        if isinstance(v, SReal):
            return v
        if isinstance(v, (SInt, SBool)):
            t, n, i = S.rparts(v)
            return SReal(t, n, i, S.ipart(v))
        if isinstance(v, float) and (math.isnan(v) or math.isinf(v)):
            return float("nan")
        if isinstance(v, (bool, int, Fraction, float)):
            return Fraction(int(v))
        raise HarnessError("cast of %r to %s" % (type(v), d))
    if k == "b":
        if isinstance(v, (bool, SBool)):
            return v
        if is_sym(v):
            return mkbool(bt(v))
        if isinstance(v, float) and math.isnan(v):
            return True
        return bool(v)
    if k in "iu":
        if isinstance(v, (SBool,)):
            v = v._i()
        elif isinstance(v, bool):
            v = int(v)
        elif isinstance(v, SReal):
            if v.i is True:
                return v        # integer-valued real standing for an integer (over-approximated domain)
            v = mkint(it(v))
        elif isinstance(v, Fraction):
            v = int(v)          # trunc toward zero
        elif isinstance(v, float):
            if math.isnan(v) or math.isinf(v):
                raise ValueError("cannot convert float NaN to integer")
            v = int(v)
        bits = d.itemsize * 8
        if bits >= 64:
            return v            # 64-bit wrap-around is outside the bounds of every harness
        if isinstance(v, SInt):
            t = v.t % (2 ** bits)
            if k == "i":
                t = z3.If(t >= 2 ** (bits - 1), t - 2 ** bits, t)
            return mkint(t)
        v = int(v) % (2 ** bits)
        if k == "i" and v >= 2 ** (bits - 1):
            v -= 2 ** bits
        return v
    if k == "f":
        if d.itemsize < 8:
            return _narrow_float(v, d)
        if isinstance(v, SReal):
            return v
        if isinstance(v, (SInt, SBool)):
            t, n, i = S.rparts(v)
            return SReal(t, n, i, S.ipart(v))
        return cfrac(v)
    raise HarnessError("cast to dtype %s" % d)


NARROW_LEVELS = 3


def round_int_to_float(ti, p, levels=NARROW_LEVELS):
    """Float with a p-bit significand nearest to the integer term ti (round half to even), as an Int term.
    Exact below 2**p; `levels` binades above are spelled out; beyond them the result is only constrained to
    within half a unit in the last place (over-approximation: any violation is replayed before it is believed,
    and counterexample models are steered into the exactly modelled range)."""
    eng = E()
    a = z3.If(ti < 0, -ti, ti)
    far = z3.Int(S.fresh_name("narrow"))
    eng.assume(z3.Implies(a >= 2 ** (p + levels), z3.And((far - a) * 2 ** p <= a, (a - far) * 2 ** p <= a)))
    eng.prefer.append(a < 2 ** (p + levels))
    r = far
    for e in range(p + levels - 1, p - 1, -1):
        q = 1 << (e - p + 1)
        m = a % q
        lo = a - m
        up = z3.Or(2 * m > q, z3.And(2 * m == q, (lo / q) % 2 == 1))
        r = z3.If(a < 2 ** (e + 1), z3.If(up, lo + q, lo), r)
    r = z3.If(a < 2 ** p, a, r)
    return z3.If(ti < 0, -r, r)


def _narrow_float(v, d):
    """Value stored into a float32/float16 array.  Integer-valued symbolic values are rounded exactly;
    other symbolic reals are kept exact (rounding of non-integers is outside every claim)."""
    p = {2: 11, 4: 24}[d.itemsize]
    if isinstance(v, (bool, int, Fraction)) or (isinstance(v, float) and not (math.isnan(v) or math.isinf(v))):
        with rnp.errstate(all="ignore"):
            return cfrac(float(d.type(float(v))))
    if isinstance(v, float):
        return v
    if isinstance(v, SReal) and v.i is True:
        ti = z3.ToInt(v.t)
    else:
        ti = S.ipart(v)
    if ti is None:
        return v if isinstance(v, SReal) else cast(v, rnp.dtype(float))
    t, n, i = S.rparts(v)
    r = round_int_to_float(ti, p)
    return SReal(z3.ToReal(r), n, i, r)


def from_real_scalar(x):
    """Real NumPy scalar / Python scalar -> element representation."""
    if isinstance(x, (rnp.bool_, bool)):
        return bool(x)
    if isinstance(x, (rnp.integer,)):
        return int(x)
    if isinstance(x, (rnp.floating, float)):
        x = float(x)
        if math.isnan(x) or math.isinf(x):
            return x
        return Fraction(x)
    if isinstance(x, (rnp.datetime64, rnp.timedelta64)):
        return float("nan") if rnp.isnat(x) else Fraction(int(x.astype(rnp.int64)))
    return x


def shadow_scalar(v):
    """Concrete stand-in for a scalar in shadow execution (dtype inference only)."""
    if isinstance(v, ndarray):
        return v.shadow()
    if isinstance(v, SKey) or isinstance(v, SInt):
        return 0
    if isinstance(v, SBool):
        return False
    if isinstance(v, SReal):
        return 0.0
    if isinstance(v, Fraction):
        return float(v)
    if isinstance(v, (list, tuple)):
        return type(v)(shadow_scalar(x) for x in v)
    return v


def _cint(x):
    """Concrete int of a possibly symbolic integer (forks)."""
    if isinstance(x, (int,)) and not isinstance(x, bool):
        return x
    if isinstance(x, ndarray):
        x = x.scalar_value()
    if isinstance(x, SInt):
        return E().concretize(x.t)
    if isinstance(x, SBool):
        return int(bool(x))
    if isinstance(x, rnp.integer):
        return int(x)
    if isinstance(x, Fraction) and x.denominator == 1:
        return int(x)
    return operator.index(x)


def _obj(shape):
    return rnp.empty(shape, dtype=object)


def _fill_obj(shape, v):
    a = rnp.empty(shape, dtype=object)
    if a.ndim == 0:
        a[()] = v
    else:
        flat = a.reshape(-1)
        for i in range(flat.shape[0]):
            flat[i] = v
    return a


def _ew(fn, nout=1):
    return _f(fn, fn.__code__.co_argcount if hasattr(fn, "__code__") else 2, nout)


EW2 = {}
for _name, _fn in (("add", e_add), ("sub", e_sub), ("mul", e_mul), ("div", e_div), ("lt", e_lt), ("le", e_le),
                   ("gt", S.e_gt), ("ge", S.e_ge), ("eq", e_eq), ("ne", e_ne), ("and", e_and), ("or", e_or),
                   ("floordiv", S.e_floordiv), ("mod", S.e_mod), ("pow", S.e_pow), ("min", S.e_min), ("max", S.e_max)):
    EW2[_name] = _f(_fn, 2, 1)
EW_NOT = _f(e_not, 1, 1)
EW_ISNAN = _f(e_isnan, 1, 1)
EW_ITE = _f(e_ite, 3, 1)
EW_NEG = _f(lambda x: e_sub(0, x), 1, 1)
EW_ABS = _f(lambda x: e_ite(e_lt(x, 0), e_sub(0, x), x), 1, 1)
EW_SQRT = _f(S.e_sqrt, 1, 1)

REALOP = {"add": operator.add, "sub": operator.sub, "mul": operator.mul, "div": operator.truediv,
          "lt": operator.lt, "le": operator.le, "gt": operator.gt, "ge": operator.ge, "eq": operator.eq,
          "ne": operator.ne, "and": operator.and_, "or": operator.or_, "floordiv": operator.floordiv,
          "mod": operator.mod, "pow": operator.pow}


def _to_objarr(x):
    """object array / scalar element of an operand."""
    if isinstance(x, ndarray):
        return x.o
    if isinstance(x, rnp.ndarray):
        return asarray(x).o
    if isinstance(x, rnp.generic):
        return from_real_scalar(x)
    if isinstance(x, (list, tuple)):
        return asarray(x).o
    if isinstance(x, float):
        return from_real_scalar(x)
    return x


def _symlen(*xs):
    n = None
    for x in xs:
        if isinstance(x, ndarray) and x.n is not None:
            if n is not None and n is not x.n and not z3.eq(it(n), it(x.n)):
                # two different symbolic lengths: make them concrete first
                return "mixed"
            n = x.n
    return n


UFUNC_MAP = {"add": "add", "subtract": "sub", "multiply": "mul", "true_divide": "div", "divide": "div",
             "less": "lt", "less_equal": "le", "greater": "gt", "greater_equal": "ge", "equal": "eq",
             "not_equal": "ne", "logical_and": "and", "logical_or": "or", "bitwise_and": "and", "bitwise_or": "or",
             "floor_divide": "floordiv", "remainder": "mod", "power": "pow"}


class ndarray:
    __array_priority__ = 1000

    def __array_ufunc__(self, ufunc, method, *inputs, **kw):
        """Real NumPy scalars / arrays on the left of an operator defer to the shim here."""
        name = ufunc.__name__
        if method == "__call__" and not kw and len(inputs) == 2 and name in UFUNC_MAP:
            return binop(inputs[0], inputs[1], UFUNC_MAP[name])
        if method == "__call__" and not kw and len(inputs) == 1 and name == "isnan":
            from .snp_funcs import isnan
            return isnan(inputs[0])
        conv = []
        for x in inputs:
            if isinstance(x, ndarray):
                if not x.is_concrete():
                    raise HarnessError("numpy.%s called on a symbolic array" % name)
                x = rnp.asarray(x)
            conv.append(x)
        return getattr(ufunc, method)(*conv, **kw)
    __slots__ = ("o", "d", "n", "tag", "__weakref__")   # weak references: caches keyed by array identity are legitimate code

    def __init__(self, o, d, n=None):
        self.o = o
        self.d = rnp.dtype(d)
        self.n = n
        self.tag = None

    # ---- basic attributes
    @property
    def dtype(self):
        return self.d

    @property
    def shape(self):
        if self.n is not None:
            return (self.n,) + tuple(self.o.shape[1:])
        return self.o.shape

    @property
    def ndim(self):
        return self.o.ndim

    @property
    def size(self):
        if self.n is not None:
            r = self.n
            for e in self.o.shape[1:]:
                r = r * e
            return r
        return self.o.size

    @property
    def nbytes(self):
        return self.size * self.d.itemsize

    @property
    def itemsize(self):
        return self.d.itemsize

    @property
    def T(self):
        self._need_fixed()
        return self._new(self.o.T)

    @property
    def flat(self):
        self._need_fixed()
        return self._new(self.o.reshape(-1))

    @property
    def base(self):
        return self.o.base

    def _new(self, o, d=None, n=None):
        return wrap_result(o, self.d if d is None else d, n)

    def shadow(self):
        if self.o.ndim == 0:
            if self.d.kind in "Mm":
                return rnp.zeros((), self.d)[()]
            return self.d.type(0) if self.d.kind != "O" else None
        return rnp.zeros(self.o.shape, self.d)

    def scalar_value(self):
        if self.o.size != 1 or self.n is not None:
            raise ValueError("can only convert an array of size 1 to a Python scalar")
        return self.o.reshape(-1)[0]

    def is_concrete(self):
        if self.n is not None:
            return False
        for x in self.o.flat:
            if is_sym(x):
                return False
        return True

    def _need_fixed(self):
        if self.n is not None:
            f = self.fixed()
            self.o, self.n = f.o, None

    def fixed(self):
        """Same array with a concrete length (forks over the feasible lengths)."""
        if self.n is None:
            return self
        k = _cint(self.n)
        return ndarray(self.o[:k], self.d)

    def live(self, i):
        if self.n is None:
            return True
        return e_lt(i, self.n)

    # ---- python protocol
    def __len__(self):
        if self.o.ndim == 0:
            raise TypeError("len() of unsized object")
        if self.n is not None:
            return _cint(self.n)
        return len(self.o)

    def __iter__(self):
        if self.o.ndim == 0:
            raise TypeError("iteration over a 0-d array")
        self._need_fixed()
        for i in range(self.o.shape[0]):
            yield self[i]

    def __bool__(self):
        if self.n is not None or self.o.size != 1:
            if self.n is None and self.o.size == 0:
                raise ValueError("The truth value of an empty array is ambiguous.")
            raise ValueError("The truth value of an array with more than one element is ambiguous. Use a.any() or a.all()")
        v = self.scalar_value()
        if isinstance(v, (SBool, SInt, SReal)):
            return bool(v)
        if isinstance(v, float) and math.isnan(v):
            return True
        return bool(v)

    def __index__(self):
        if self.d.kind not in "iu" or self.o.size != 1 or self.o.ndim != 0:
            raise TypeError("only integer scalar arrays can be converted to a scalar index")
        return _cint(self.scalar_value())

    def __int__(self):
        v = self.scalar_value()
        if isinstance(v, SReal):
            return _cint(mkint(it(v)))
        if isinstance(v, (Fraction, float)):
            return int(v)
        return _cint(v)

    def __float__(self):
        v = self.scalar_value()
        if is_sym(v):
            raise HarnessError("float() of a symbolic array scalar")
        return float(v)

    def __hash__(self):
        if self.o.ndim == 0:
            v = self.scalar_value()
            return hash(v)
        raise TypeError("unhashable type: 'ndarray'")

    def __repr__(self):
        return "<snp.ndarray %s %s>" % (self.o.shape, self.d)

    __str__ = __repr__

    def __format__(self, spec):
        return repr(self)

    def __array__(self, dtype=None, copy=None):
        """Concrete export (conformance runs only)."""
        f = self.fixed()
        out = rnp.empty(f.o.shape, dtype=f.d)
        if out.ndim == 0:
            out[()] = _export(f.o[()], f.d)
        else:
            of = out.reshape(-1)
            for i, x in enumerate(f.o.reshape(-1)):
                of[i] = _export(x, f.d)
        return out if dtype is None else out.astype(dtype)

    # ---- conversions
    def astype(self, dtype, copy=True, casting="unsafe"):
        d = rnp.dtype(dtype)
        sh = self.shadow()
        try:
            (sh if isinstance(sh, rnp.ndarray) else rnp.asarray(sh)).astype(d, casting=casting)
        except TypeError:
            raise
        if d == self.d and not copy:
            return self
        if self.o.size == 0:
            return ndarray(self.o.copy(), d, self.n)
        return wrap_result(_cast_arr(self.o, d), d, self.n)

    def copy(self, order=None):
        return ndarray(self.o.copy(), self.d, self.n)

    def view(self, *a, **k):
        if a or k:
            raise HarnessError("ndarray.view with arguments")
        return ndarray(self.o.view(), self.d, self.n)

    def tolist(self):
        """Python scalars: integer / bool elements become plain ints / bools (forking over the
        feasible values of symbolic ones, except symbolic dictionary keys)."""
        f = self.fixed()
        if f.d.kind in "iub" and f.o.size:
            def conc(v):
                if isinstance(v, SKey):
                    return v
                if isinstance(v, SInt):
                    return E().concretize(v.t)
                if isinstance(v, SBool):
                    return bool(v)
                return v
            return _f(conc, 1, 1)(f.o).tolist()
        return f.o.tolist()

    def item(self, *a):
        if a:
            return self[a if len(a) > 1 else a[0]].item()
        return self.scalar_value()

    def reshape(self, *shape, **kw):
        self._need_fixed()
        if len(shape) == 1 and isinstance(shape[0], (tuple, list)):
            shape = tuple(shape[0])
        shape = tuple(_cint(s) for s in shape)
        rnp.zeros(self.o.shape, "b").reshape(shape)      # shape errors from real numpy
        return self._new(self.o.reshape(shape))

    def ravel(self):
        return self.reshape(-1)

    def flatten(self):
        self._need_fixed()
        return ndarray(self.o.flatten(), self.d)

    def transpose(self, *axes):
        self._need_fixed()
        return self._new(self.o.transpose(*axes))

    def squeeze(self, axis=None):
        self._need_fixed()
        return self._new(self.o.squeeze(axis))

    def fill(self, v):
        self[...] = v

    # ---- indexing
    def _norm_index(self, k):
        if not isinstance(k, tuple):
            k = (k,)
        out = []
        kind = "basic"
        for c in k:
            if isinstance(c, ndarray):
                if c.o.ndim == 0 and c.d.kind in "iu":
                    v = c.scalar_value()
                    if is_sym(v):
                        out.append(v)
                        kind = "adv"
                    else:
                        out.append(int(v))
                    continue
                if c.o.ndim == 0 and c.d.kind == "b":
                    out.append(c)
                    kind = "adv"
                    continue
                out.append(c)
                kind = "adv"
            elif isinstance(c, rnp.ndarray):
                out.append(asarray(c))
                kind = "adv"
            elif isinstance(c, (list,)):
                out.append(asarray(c))
                kind = "adv"
            elif isinstance(c, slice):
                out.append(slice(*[None if v is None else _cint(v) for v in (c.start, c.stop, c.step)]))
            elif isinstance(c, (SInt,)):
                out.append(c)
                kind = "adv"
            elif isinstance(c, SBool):
                raise HarnessError("symbolic bool used as an index")
            elif isinstance(c, rnp.integer):
                out.append(int(c))
            elif isinstance(c, (bool, rnp.bool_)):
                out.append(asarray(bool(c)))
                kind = "adv"
            elif c is None or c is Ellipsis or isinstance(c, int):
                out.append(c)
            else:
                try:
                    out.append(operator.index(c))
                except TypeError:
                    raise IndexError("only integers, slices (`:`), ellipsis (`...`), numpy.newaxis (`None`) and integer or boolean arrays are valid indices")
        return tuple(out), kind

    def __getitem__(self, k):
        k, kind = self._norm_index(k)
        if kind == "basic":
            if self.n is not None:
                r = self._sym_basic_get(k)
                if r is not NotImplemented:
                    return r
                self._need_fixed()
            r = self.o[k]
            if isinstance(r, rnp.ndarray):
                return ndarray(r, self.d)
            return mkscalar(r, self.d)
        from .snp_index import adv_get
        return adv_get(self, k)

    def _sym_basic_get(self, k):
        # a[i] / a[i, ...] with a concrete i < cap on a symbolic-length array: IndexError iff i >= n
        if k and isinstance(k[0], int) and all(isinstance(c, (int, slice)) for c in k[1:]):
            i = k[0]
            if i < 0:
                return NotImplemented
            if not bool(e_lt(i, self.n)):
                raise IndexError("index %d is out of bounds" % i)
            r = self.o[k]
            return ndarray(r, self.d) if isinstance(r, rnp.ndarray) else mkscalar(r, self.d)
        return NotImplemented

    def __setitem__(self, k, v):
        k, kind = self._norm_index(k)
        if kind == "basic":
            self._need_fixed()
            if isinstance(v, ndarray) and v.n is not None:
                v = v.fixed()
            # shadow assignment: casting / broadcasting errors from real numpy
            sh = rnp.zeros(self.o.shape, self.d)
            sh[k] = shadow_scalar(v) if not isinstance(v, (rnp.ndarray, rnp.generic)) else v
            vo = _to_objarr(v)
            d = self.d
            if isinstance(vo, rnp.ndarray):
                vo = _cast_arr(vo, d)
                if vo.ndim == 0:
                    vo = vo[()]
            else:
                vo = cast(vo, d)
            if isinstance(vo, rnp.ndarray):
                self.o[k] = vo
            else:
                tgt = self.o[k]
                if isinstance(tgt, rnp.ndarray):
                    if tgt.ndim == 0:
                        tgt[()] = vo
                    else:
                        flat_assign(self.o, k, vo)
                else:
                    self.o[k] = vo
            if _HOOKS["touch"] is not None:
                tgt = self.o[k]
                _HOOKS["touch"](tgt if isinstance(tgt, rnp.ndarray) else _cell_view(self.o, k), "w")
            return
        from .snp_index import adv_set
        adv_set(self, k, v)

    # ---- arithmetic
    def _bin(self, o, name, reflect=False):
        return binop(o, self, name) if reflect else binop(self, o, name)

    def __add__(self, o): return self._bin(o, "add")
    def __radd__(self, o): return self._bin(o, "add", True)
    def __sub__(self, o): return self._bin(o, "sub")
    def __rsub__(self, o): return self._bin(o, "sub", True)
    def __mul__(self, o): return self._bin(o, "mul")
    def __rmul__(self, o): return self._bin(o, "mul", True)
    def __truediv__(self, o): return self._bin(o, "div")
    def __rtruediv__(self, o): return self._bin(o, "div", True)
    def __floordiv__(self, o): return self._bin(o, "floordiv")
    def __rfloordiv__(self, o): return self._bin(o, "floordiv", True)
    def __mod__(self, o): return self._bin(o, "mod")
    def __pow__(self, o): return self._bin(o, "pow")
    def __lt__(self, o): return self._bin(o, "lt")
    def __le__(self, o): return self._bin(o, "le")
    def __gt__(self, o): return self._bin(o, "gt")
    def __ge__(self, o): return self._bin(o, "ge")
    def __eq__(self, o): return self._bin(o, "eq")
    def __ne__(self, o): return self._bin(o, "ne")
    def __and__(self, o): return self._bin(o, "and")
    def __rand__(self, o): return self._bin(o, "and", True)
    def __or__(self, o): return self._bin(o, "or")
    def __ror__(self, o): return self._bin(o, "or", True)

    def __iadd__(self, o):
        if self.n is not None:      # symbolic-length arrays are always fresh results, never views
            return binop(self, o, "add", out_dtype=self.d)
        self[...] = binop(self, o, "add", out_dtype=self.d)
        return self

    def __isub__(self, o):
        if self.n is not None:      # symbolic-length arrays are always fresh results, never views
            return binop(self, o, "sub", out_dtype=self.d)
        self[...] = binop(self, o, "sub", out_dtype=self.d)
        return self

    def __imul__(self, o):
        if self.n is not None:      # symbolic-length arrays are always fresh results, never views
            return binop(self, o, "mul", out_dtype=self.d)
        self[...] = binop(self, o, "mul", out_dtype=self.d)
        return self

    def __itruediv__(self, o):
        if self.n is not None:      # symbolic-length arrays are always fresh results, never views
            return binop(self, o, "div", out_dtype=self.d)
        self[...] = binop(self, o, "div", out_dtype=self.d)
        return self

    def __invert__(self):
        sh = ~_sh_arr(self)
        if self.d.kind != "b":
            if self.is_concrete():
                return asarray(~rnp.asarray(self))
            raise HarnessError("bitwise invert of symbolic integers")
        return wrap_result(EW_NOT(self.o), sh.dtype, self.n)

    def __neg__(self):
        sh = -_sh_arr(self)
        d = sh.dtype
        return wrap_result(_cast_arr(EW_NEG(self.o), d), d, self.n)

    def __pos__(self):
        return self.copy()

    def __abs__(self):
        sh = abs(_sh_arr(self))
        return wrap_result(EW_ABS(self.o), sh.dtype, self.n)

    # ---- reductions / methods
    def sum(self, axis=None, dtype=None, out=None, keepdims=False):
        return reduce_(self, "sum", axis, dtype, keepdims)

    def prod(self, axis=None, dtype=None):
        return reduce_(self, "prod", axis, dtype)

    def any(self, axis=None):
        return reduce_(self, "any", axis)

    def all(self, axis=None):
        return reduce_(self, "all", axis)

    def max(self, axis=None):
        return reduce_(self, "max", axis)

    def min(self, axis=None):
        return reduce_(self, "min", axis)

    def mean(self, axis=None):
        s = reduce_(self, "sum", axis, rnp.dtype(float) if self.d.kind in "iub" else None)
        cnt = self.o.size if axis is None else self.o.shape[axis]
        return s / cnt

    def nonzero(self):
        from .snp_index import nonzero
        return nonzero(self)

    def cumsum(self, axis=None, dtype=None):
        from .snp_funcs import cumsum
        return cumsum(self, axis=axis, dtype=dtype)

    def cumprod(self, axis=None, dtype=None):
        from .snp_funcs import cumprod
        return cumprod(self, axis=axis, dtype=dtype)

    def clip(self, min=None, max=None):
        from .snp_funcs import clip
        return clip(self, min, max)

    def argsort(self, axis=-1, kind=None):
        from .snp_funcs import argsort
        return argsort(self, axis=axis)

    def sort(self, axis=-1, kind=None):
        from .snp_funcs import sort
        self._need_fixed()
        r = sort(self, axis=axis)
        self.o[...] = r.o

    def tofile(self, f):
        raise HarnessError("ndarray.tofile in the Int shim")

    def dot(self, o):
        raise HarnessError("dot")

    def repeat(self, n, axis=None):
        from .snp_funcs import repeat
        return repeat(self, n, axis)


class npscalar(ndarray):
    """NumPy scalar: a 0-d array that is also usable where Python numbers are."""
    __slots__ = ()

    def __eq__(self, o):
        return ndarray.__eq__(self, o)

    __hash__ = ndarray.__hash__

    def __repr__(self):
        return "<snp.scalar %s>" % (self.d,)

    def __round__(self, n=None):
        v = self.scalar_value()
        return round(v, n)


def mkscalar(v, d):
    return npscalar(_fill_obj((), v), d)


def wrap_result(o, d, n=None):
    d = rnp.dtype(d)
    if isinstance(o, rnp.ndarray):
        if o.ndim == 0 and n is None:
            return npscalar(o, d)
        return ndarray(o, d, n)
    return mkscalar(o, d)


def _export(x, d):
    if is_sym(x):
        raise HarnessError("export of a symbolic element")
    if isinstance(x, Fraction):
        return float(x) if d.kind == "f" else int(x)
    return x


def flat_assign(o, k, v):
    tgt = o[k]
    if tgt.base is None and not rnp.shares_memory(tgt, o):
        raise HarnessError("flat_assign on a copy")
    if tgt.ndim == 0:
        tgt[()] = v
        return
    it_ = rnp.nditer(tgt, flags=["refs_ok", "multi_index"], op_flags=["readwrite"])
    for _ in it_:
        tgt[it_.multi_index] = v


def _sh_arr(x):
    s = x.shadow()
    return s


def _cast_arr(o, d):
    if isinstance(o, rnp.ndarray):
        if o.size == 0:
            return o
        r = _f(lambda v: cast(v, d), 1, 1)(o)
        if not isinstance(r, rnp.ndarray):
            r = _fill_obj((), r)
        return r
    return cast(o, d)


_HOOKS = {"touch": None}


def _touch(arr, kind, where=None):
    """Report a read/write of the whole (view of an) array to the access recorder (C16)."""
    h = _HOOKS["touch"]
    if h is not None:
        h(arr.o if isinstance(arr, ndarray) else arr, kind)


def _cell_view(o, k):
    """0-d view of the single cell o[k] (k a full basic index of ints)."""
    try:
        kk = tuple(slice(i, i + 1) if isinstance(i, int) and i >= 0 else (slice(i, None) if i == -1 else slice(i, i + 1)) for i in k)
        return o[kk]
    except Exception:
        return o


def addresses(o):
    """Set of memory addresses of the element slots of an object array / view."""
    if not isinstance(o, rnp.ndarray):
        return set()
    base = o.__array_interface__["data"][0]
    if o.ndim == 0:
        return {base}
    offs = rnp.zeros(o.shape, dtype=rnp.int64)
    for ax, (n, st) in enumerate(zip(o.shape, o.strides)):
        shape = [1] * o.ndim
        shape[ax] = n
        offs = offs + (rnp.arange(n, dtype=rnp.int64) * st).reshape(shape)
    return set((offs + base).reshape(-1).tolist())


def _shadow_operand(x):
    if isinstance(x, ndarray):
        return x.shadow()
    if isinstance(x, (rnp.ndarray, rnp.generic)):
        return x
    return shadow_scalar(x)


def binop(a, b, name, out_dtype=None):
    if isinstance(a, (list, tuple)):
        a = asarray(a)
    if isinstance(b, (list, tuple)):
        b = asarray(b)
    if b is None or a is None or isinstance(a, (str, dict)) or isinstance(b, (str, dict)):
        if name == "eq":
            return False
        if name == "ne":
            return True
        raise TypeError("unsupported operand type(s)")
    # a symbolic-length operand meeting an array of another capacity: make the lengths concrete first
    if isinstance(a, ndarray) and isinstance(b, ndarray) and (a.n is not None or b.n is not None):
        if a.o.ndim and b.o.ndim and (a.o.shape[0] != b.o.shape[0] or _symlen(a, b) == "mixed" or (a.n is None) != (b.n is None)):
            if not ((a.n is None and a.o.shape[0] == 1) or (b.n is None and b.o.shape[0] == 1)):
                a, b = a.fixed(), b.fixed()
    sa, sb = _shadow_operand(a), _shadow_operand(b)
    with rnp.errstate(all="ignore"):
        sh = REALOP[name](sa, sb)
    if sh is NotImplemented:
        return NotImplemented
    d = sh.dtype if hasattr(sh, "dtype") else rnp.asarray(sh).dtype
    n = _symlen(a, b)
    if n == "mixed":
        a = a.fixed() if isinstance(a, ndarray) else a
        b = b.fixed() if isinstance(b, ndarray) else b
        n = None
    ao, bo = _to_objarr(a), _to_objarr(b)
    _touch(a, "r") if isinstance(a, ndarray) else None
    _touch(b, "r") if isinstance(b, ndarray) else None
    opname = name
    da = a.d if isinstance(a, ndarray) else None
    db = b.d if isinstance(b, ndarray) else None
    both_bool = (da is None or da.kind == "b") and (db is None or db.kind == "b") and d.kind == "b"
    if both_bool and name == "add":
        opname = "or"
    elif both_bool and name == "mul":
        opname = "and"
    if name in ("and", "or") and d.kind != "b":
        if (not isinstance(a, ndarray) or a.is_concrete()) and (not isinstance(b, ndarray) or b.is_concrete()):
            return asarray(REALOP[name](rnp.asarray(a), rnp.asarray(b)))
        raise HarnessError("bitwise %s of symbolic integers" % name)
    if name in ("floordiv", "mod") and d.kind in "iu":
        # numpy integer division by zero gives 0 (with a warning), not an exception
        def safe(x, y, _n=name):
            z = e_eq(y, 0)
            if z is True:
                return 0
            r = (S.e_floordiv if _n == "floordiv" else S.e_mod)(x, e_ite(z, 1, y))
            return e_ite(z, 0, r)
        res = _f(safe, 2, 1)(ao, bo)
    else:
        res = EW2[opname](ao, bo)
    if out_dtype is not None:
        d = out_dtype
    res = _cast_arr(res, d)
    if RESIDUE[0] and name == "sub" and d.kind == "f" and isinstance(res, rnp.ndarray):
        # rounding-residue mode: a float array subtraction (marginal differencing) is exact up to a bounded,
        # solver-chosen perturbation of each element
        eng = E()
        eps = z3.RealVal(RESIDUE[0])

        def perturb(v):
            r = z3.Real(S.fresh_name("residue"))
            eng.assume(r >= -eps, r <= eps)
            return e_add(v, SReal(r, False, False))
        res = _f(perturb, 1, 1)(res)
    return wrap_result(res, d, n)


RESIDUE = [None]      # None, or the absolute residue bound as a string such as "1e-12"


def reduce_(a, kind, axis=None, dtype=None, keepdims=False):
    """sum / prod / any / all / max / min / nansum / count_nonzero over axes."""
    a = asarray(a)
    sh_in = rnp.zeros(a.o.shape, a.d) if a.o.ndim else rnp.asarray(a.shadow())
    real = {"sum": rnp.sum, "nansum": rnp.nansum, "prod": rnp.prod, "any": rnp.any, "all": rnp.all,
            "max": rnp.max, "min": rnp.min, "count_nonzero": rnp.count_nonzero}[kind]
    kw = {}
    if dtype is not None and kind in ("sum", "nansum", "prod"):
        kw["dtype"] = dtype
    if keepdims:
        kw["keepdims"] = True
    if isinstance(axis, ndarray):
        axis = _cint(axis)
    if isinstance(axis, (tuple, list)):
        axis = tuple(_cint(x) for x in axis)
    if kind in ("max", "min") and a.o.size == 0 and a.n is None:
        real(sh_in, axis=axis)      # raises ValueError like numpy
    if kind in ("max", "min"):
        shr = real(rnp.ones(a.o.shape, a.d) if a.o.size else sh_in, axis=axis, **kw)
    else:
        shr = real(sh_in, axis=axis, **kw)
    d = shr.dtype if hasattr(shr, "dtype") else rnp.asarray(shr).dtype
    _touch(a, "r")
    if a.n is not None and (axis not in (0, None) and axis != (0,)):
        a = a.fixed()
    o = a.o
    if axis is None:
        axes = tuple(range(o.ndim))
    elif isinstance(axis, tuple):
        axes = tuple(x % o.ndim for x in axis)
    else:
        axes = (axis % o.ndim,) if o.ndim else ()
    rest = [i for i in range(o.ndim) if i not in axes]
    moved = o.transpose(list(axes) + rest) if o.ndim else o
    K = 1
    for ax in axes:
        K *= o.shape[ax]
    rest_shape = tuple(o.shape[i] for i in rest)
    m2 = moved.reshape((K,) + rest_shape) if o.ndim else moved.reshape((1,))
    if kind in ("sum", "nansum", "count_nonzero"):
        acc = _fill_obj(rest_shape, 0)
    elif kind == "prod":
        acc = _fill_obj(rest_shape, 1)
    elif kind == "any":
        acc = _fill_obj(rest_shape, False)
    elif kind == "all":
        acc = _fill_obj(rest_shape, True)
    else:
        acc = None
    guard_axis0 = a.n is not None
    for k in range(K):
        x = m2[k]
        if not isinstance(x, rnp.ndarray):
            x = _fill_obj((), x)
        g = True
        if guard_axis0:
            # axis 0 is the first reduced axis: index along it
            i0 = k // (K // o.shape[0]) if o.shape[0] else 0
            g = a.live(i0)
        if kind == "sum":
            term = x
        elif kind == "nansum":
            term = _f(lambda v: e_ite(e_isnan(v), 0, v), 1, 1)(x)
        elif kind == "count_nonzero":
            term = _f(lambda v: e_ite(mkbool(bt(v)) if is_sym(v) else bool(v) or (isinstance(v, float) and math.isnan(v)), 1, 0), 1, 1)(x)
        else:
            term = x
        if not isinstance(term, rnp.ndarray):
            term = _fill_obj((), term)
        if kind in ("sum", "nansum", "count_nonzero"):
            if g is not True:
                term = _f(lambda v, _g=g: e_ite(_g, v, 0), 1, 1)(term)
            acc = EW2["add"](acc, term)
        elif kind == "prod":
            if g is not True:
                term = _f(lambda v, _g=g: e_ite(_g, v, 1), 1, 1)(term)
            acc = EW2["mul"](acc, term)
        elif kind == "any":
            tb = _f(lambda v: mkbool(bt(v)) if is_sym(v) else (bool(v) or (isinstance(v, float) and math.isnan(v))), 1, 1)(term)
            if g is not True:
                tb = _f(lambda v, _g=g: e_and(_g, v), 1, 1)(tb)
            acc = EW2["or"](acc, tb)
        elif kind == "all":
            tb = _f(lambda v: mkbool(bt(v)) if is_sym(v) else (bool(v) or (isinstance(v, float) and math.isnan(v))), 1, 1)(term)
            if g is not True:
                tb = _f(lambda v, _g=g: e_or(e_not(_g), v), 1, 1)(tb)
            acc = EW2["and"](acc, tb)
        else:
            if acc is None:
                acc = term        # (an empty symbolic-length axis is the caller's business: numpy would raise)
            else:
                # numpy max/min propagate NaN; rows beyond a symbolic length are skipped
                def mm(p, q, _k=kind, _g=g):
                    r = S.e_max(p, q) if _k == "max" else S.e_min(p, q)
                    r = e_ite(e_isnan(p), p, e_ite(e_isnan(q), q, r))
                    return r if _g is True else e_ite(_g, r, p)
                acc = _f(mm, 2, 1)(acc, term)
    if not isinstance(acc, rnp.ndarray):
        acc = _fill_obj((), acc)
    acc = _cast_arr(acc, d)
    if keepdims:
        acc = acc.reshape(shr.shape)
    return wrap_result(acc, d)


# ------------------------------------------------------------------ construction
def asarray(x, dtype=None, order=None, copy=None):
    if isinstance(x, ndarray):
        if dtype is None or rnp.dtype(dtype) == x.d:
            return x
        return x.astype(dtype)
    if isinstance(x, (rnp.ndarray, rnp.generic)):
        r = rnp.asarray(x, dtype=dtype)
        o = rnp.empty(r.shape, dtype=object)
        if r.ndim == 0:
            o[()] = from_real_scalar(r[()])
            return npscalar(o, r.dtype)
        of = o.reshape(-1)
        for i, v in enumerate(r.reshape(-1)):
            of[i] = from_real_scalar(v)
        return ndarray(o, r.dtype)
    return array(x, dtype=dtype)


def _deep_shadow(x):
    if isinstance(x, ndarray):
        return x.fixed().shadow()
    if isinstance(x, (list, tuple)):
        return [_deep_shadow(v) for v in x]
    if isinstance(x, (range,)):
        return list(x)
    if hasattr(x, "__iter__") and not isinstance(x, (str, bytes, dict)):
        return [_deep_shadow(v) for v in x]
    return shadow_scalar(x)


def _deep_values(x, out):
    if isinstance(x, ndarray):
        out.extend(x.fixed().o.reshape(-1).tolist() if x.o.ndim else [x.scalar_value()])
    elif isinstance(x, (list, tuple, range)) or (hasattr(x, "__iter__") and not isinstance(x, (str, bytes, dict))):
        for v in x:
            _deep_values(v, out)
    elif isinstance(x, rnp.generic):
        out.append(from_real_scalar(x))
    elif isinstance(x, float):
        out.append(from_real_scalar(x))
    else:
        out.append(x)


def array(x, dtype=None, copy=True, order=None, ndmin=0):
    if isinstance(x, ndarray):
        r = x.astype(dtype) if dtype is not None else x.copy()
        return r
    if isinstance(x, (rnp.ndarray, rnp.generic)):
        return asarray(x, dtype)
    if hasattr(x, "__iter__") and not isinstance(x, (list, tuple, str, bytes, dict)):
        x = list(x)
    sh = rnp.array(_deep_shadow(x), dtype=dtype)
    vals = []
    _deep_values(x, vals)
    if sh.dtype.kind == "O" and dtype is None:
        # object arrays of non-numbers (strings etc.): keep as is
        pass
    if len(vals) != sh.size:
        raise HarnessError("array(): could not match values to shape %s" % (sh.shape,))
    o = rnp.empty(sh.shape, dtype=object)
    d = sh.dtype
    if sh.dtype.kind in "US":
        return _real_passthrough(sh)
    if o.ndim == 0:
        o[()] = store_py(vals[0], d)
        return npscalar(o, d)
    of = o.reshape(-1)
    for i, v in enumerate(vals):
        of[i] = store_py(v, d)
    return ndarray(o, d)


def _real_passthrough(r):
    o = rnp.empty(r.shape, dtype=object)
    of = o.reshape(-1)
    for i, v in enumerate(r.reshape(-1)):
        of[i] = v.item() if hasattr(v, "item") else v
    return ndarray(o, r.dtype)


def store_py(v, d):
    """Python value stored into a new/existing array cell: NumPy 2 raises OverflowError for a
    Python int outside an integer dtype (a fork on the range predicate for symbolic ints)."""
    if d.kind in "iu" and isinstance(v, (SInt,)) and not isinstance(v, ndarray):
        info = rnp.iinfo(d)
        ok = e_and(e_le(int(info.min), v), e_le(v, int(info.max)))
        if not bool(ok):
            raise OverflowError("Python integer out of bounds for %s" % d.name)
        return v
    return cast(v, d)


def zeros(shape, dtype=float, order=None):
    shape = _shape(shape)
    d = rnp.zeros((), dtype).dtype
    return wrap_result(_fill_obj(shape, cast(0, d)), d) if shape != () else ndarray(_fill_obj((), cast(0, d)), d)


def ones(shape, dtype=float, order=None):
    shape = _shape(shape)
    d = rnp.zeros((), dtype).dtype
    return ndarray(_fill_obj(shape, cast(1, d)), d)


def empty(shape, dtype=float, order=None):
    """Uninitialised memory: arbitrary values (fresh solver variables) for numeric dtypes."""
    shape = _shape(shape)
    d = rnp.zeros((), dtype).dtype
    o = rnp.empty(shape, dtype=object)
    eng = E()
    of = o.reshape(-1)
    for i in range(of.shape[0]):
        if d.kind == "b":
            of[i] = SBool(z3.Bool(S.fresh_name("uninit")))
        elif d.kind in "iu":
            g = z3.Int(S.fresh_name("uninit"))
            info = rnp.iinfo(d)
            eng.assume(g >= int(info.min), g <= int(info.max))
            of[i] = SInt(g)
        elif d.kind == "f":
            of[i] = SReal(z3.Real(S.fresh_name("uninit")), z3.Bool(S.fresh_name("uninitnan")), False)
        else:
            of[i] = None
    return ndarray(o, d)


def full(shape, fill_value, dtype=None, order=None):
    shape = _shape(shape)
    sh = rnp.full(shape, shadow_scalar(fill_value), dtype=dtype)
    d = sh.dtype
    v = fill_value.scalar_value() if isinstance(fill_value, ndarray) else fill_value
    if isinstance(v, rnp.generic) or isinstance(v, float):
        v = from_real_scalar(v)
    return ndarray(_fill_obj(shape, store_py(v, d)), d)


def _shape(shape):
    if isinstance(shape, (tuple, list)):
        return tuple(_cint(s) for s in shape)
    return (_cint(shape),)


def arange(*a, dtype=None):
    a = [_cint(x) for x in a]
    r = rnp.arange(*a, dtype=dtype)
    return asarray(r)
