"""Bit-vector back-end and I/O stubs for the INDX properties (C10-C12).

Scalars are BitVec(80) terms (section 2.2): byte (de)composition is Extract/Concat.
Stubs (section 2.12): file object, struct, mmap, numpy.ndarray(buffer=), tofile, and the
small NumPy surface indxio.py uses.  Everything is loaded into a private namespace.
"""
import ast
import itertools
import os
import struct as rstruct
import sys
import types

import numpy as rnp
import z3

from .engine import E, Abort, HarnessError, Violation
from .scalars import SBool, mkbool
from .replay import src_dir

W = 80


def I(v):
    return z3.BitVecVal(int(v), W)


NPK = {"u1": (8, False), "u2": (16, False), "u4": (32, False), "u8": (64, False),
       "i1": (8, True), "i2": (16, True), "i4": (32, True), "i8": (64, True)}
NPNAME = {"u1": "uint8", "u2": "uint16", "u4": "uint32", "u8": "uint64",
          "i1": "int8", "i2": "int16", "i4": "int32", "i8": "int64"}


def T(x):
    if isinstance(x, S):
        return x.t
    if isinstance(x, z3.BitVecRef):
        return x
    if isinstance(x, SBool):
        return z3.If(x.t, I(1), I(0))
    if isinstance(x, (bool, int)):
        return I(int(x))
    if hasattr(x, "__index__"):
        return I(x.__index__())
    raise HarnessError("bvio.T: %r" % type(x))


def wrap(t, kind):
    if kind in ("py", "f"):
        return t
    bits, signed = NPK[kind]
    lo = z3.Extract(bits - 1, 0, t)
    return z3.SignExt(W - bits, lo) if signed else z3.ZeroExt(W - bits, lo)


def promote(k1, k2):
    if k1 == "py":
        return k2
    if k2 == "py" or k1 == k2:
        return k1
    if "f" in (k1, k2):
        return "f"
    r = rnp.result_type(rnp.dtype(k1), rnp.dtype(k2))
    if r.kind not in "iu":
        raise HarnessError("integer promotion %s,%s -> %s" % (k1, k2, r))
    return r.str[1:]


def conc(t):
    return E().concretize(t)


def f64_round(t):
    """IEEE double nearest to the signed 80-bit integer t (round half to even), again as an integer term.
    Exact below 2**53; levels 2**53..2**65 are spelled out (inputs are at most 64-bit words)."""
    neg = t < I(0)
    a = z3.If(neg, -t, t)
    r = a
    for e in range(53, 66):
        q = 1 << (e - 52)
        m = a & I(q - 1)
        lo = a - m
        odd = z3.Extract(e - 52, e - 52, lo) == z3.BitVecVal(1, 1)
        up = z3.Or(z3.UGT(m, I(q // 2)), z3.And(m == I(q // 2), odd))
        r = z3.If(z3.LShR(a, e) == I(1), z3.If(up, lo + I(q), lo), r)
    return z3.If(neg, -r, r)


def from_f64(t, k):
    """C cast double -> integer kind k of an integer-valued double t; out of range is undefined
    behaviour in C, modelled as an arbitrary value of the target type (over-approximation)."""
    bits, signed = NPK[k]
    lo, hi = (-(2 ** (bits - 1)), 2 ** (bits - 1) - 1) if signed else (0, 2 ** bits - 1)
    inr = z3.simplify(z3.And(t >= I(lo), t <= I(hi)))
    if z3.is_true(inr):
        return t
    any_ = z3.BitVec(_fresh("ub_cast"), W)
    E().assume(z3.And(any_ >= I(lo), any_ <= I(hi)))
    return z3.If(inr, t, any_)


_FRESH = [0]


def _fresh(p):
    _FRESH[0] += 1
    return "%s_%d" % (p, _FRESH[0])


class S:
    """Symbolic integer scalar: kind 'py' (Python int) or a NumPy integer kind.  Hash is
    constant so it can be a dict key with solver-decided equality (section 2.4).
    Kind 'f' is a Python float / float64 holding the exact rational t / den (den a positive Python int):
    true division by an item size keeps its fraction, int() truncates toward zero."""

    def __init__(self, t, kind="py", den=1):
        self.t = z3.simplify(t)
        self.kind = kind
        self.den = den

    def _b(self, o, f):
        if not isinstance(o, (S, int, SBool)):
            return NotImplemented
        k = promote(self.kind, o.kind if isinstance(o, S) else "py")
        da, db = self.den, (o.den if isinstance(o, S) else 1)
        if da != 1 or db != 1:
            # rationals: common denominator (only + and - and comparisons are needed of quotients)
            r = f(self.t * I(db), T(o) * I(da))
            return S(r, "f", da * db)
        return S(wrap(f(self.t, T(o)), k), k)

    def __add__(self, o):
        return self._b(o, lambda a, b: a + b)

    def __radd__(self, o):
        return self._b(o, lambda a, b: b + a)

    def __sub__(self, o):
        return self._b(o, lambda a, b: a - b)

    def __rsub__(self, o):
        return self._b(o, lambda a, b: b - a)

    def __mul__(self, o):
        if self.den != 1 or (isinstance(o, S) and o.den != 1):
            if not isinstance(o, (S, int)):
                return NotImplemented
            return S(self.t * T(o), "f", self.den * (o.den if isinstance(o, S) else 1))
        return self._b(o, lambda a, b: a * b)

    __rmul__ = __mul__

    def __truediv__(self, o):
        # true division: exact rational with a concrete positive denominator (a symbolic divisor is decided by forking)
        if isinstance(o, S) and o.den != 1:
            raise HarnessError("bvio: division by a non-integer")
        d = o if isinstance(o, int) and not isinstance(o, S) else conc(T(o))
        if d == 0:
            raise ZeroDivisionError("division by zero")
        t = self.t if d > 0 else -self.t
        return S(t, "f", self.den * abs(d))

    def __floordiv__(self, o):
        if self.den != 1 or (isinstance(o, S) and o.den != 1):
            raise HarnessError("bvio: floor division of a non-integer")
        return self._b(o, lambda a, b: a / b)

    def trunc(self):
        """int(): truncation toward zero (bvsdiv)."""
        return self.t if self.den == 1 else self.t / I(self.den)

    def __abs__(self):
        return S(z3.If(self.t < I(0), -self.t, self.t), self.kind, self.den)

    def __neg__(self):
        return S(-self.t, self.kind, self.den)

    def _c(self, o, f):
        if isinstance(o, (S, int)) and not isinstance(o, bool) or isinstance(o, bool):
            da, db = self.den, (o.den if isinstance(o, S) else 1)
            if da != 1 or db != 1:
                return mkbool(f(self.t * I(db), T(o) * I(da)))
            return mkbool(f(self.t, T(o)))
        return NotImplemented

    def __eq__(self, o):
        r = self._c(o, lambda a, b: a == b)
        return False if r is NotImplemented else r

    def __ne__(self, o):
        r = self._c(o, lambda a, b: a != b)
        return True if r is NotImplemented else r

    def __lt__(self, o):
        return self._c(o, lambda a, b: a < b)

    def __le__(self, o):
        return self._c(o, lambda a, b: a <= b)

    def __gt__(self, o):
        return self._c(o, lambda a, b: a > b)

    def __ge__(self, o):
        return self._c(o, lambda a, b: a >= b)

    def __hash__(self):
        return 0

    def __index__(self):
        if self.den != 1:
            raise TypeError("'float' object cannot be interpreted as an integer")
        return conc(self.t)

    def __int__(self):
        return conc(self.trunc())

    def __bool__(self):
        return bool(mkbool(self.t != I(0)))

    def item(self):
        return S(self.t, "py" if self.den == 1 else "f", self.den)

    @property
    def dtype(self):
        return DT(self.kind)

    def __repr__(self):
        return "<S %s>" % self.kind

    __str__ = __repr__

    def __format__(self, spec):
        return "<symbolic>"

    def __getattr__(self, name):
        if name.startswith("__") and name.endswith("__"):
            raise AttributeError(name)
        raise HarnessError("bvio: scalar attribute %s is not modelled" % name)


class DT:
    def __init__(self, k):
        if isinstance(k, DT):
            k = k.k
        elif isinstance(k, type) and hasattr(k, "k"):
            k = k.k
        elif k is int:
            k = "i8"
        elif k is float or k == "f":
            k = "f8"
        if k not in NPK and k != "f8":
            raise HarnessError("bvio dtype %r" % (k,))
        self.k = k
        self.itemsize = 8 if k == "f8" else NPK[k][0] // 8
        self.name = "float64" if k == "f8" else NPNAME[k]
        self.str = "<" + k

    def __eq__(self, o):
        try:
            return DT(o).k == self.k
        except HarnessError:
            return False

    def __ne__(self, o):
        return not self == o

    def __hash__(self):
        return hash(self.k)

    def type(self, v):
        return S(wrap(T(v), self.k), self.k)

    def __repr__(self):
        return "dtype(%s)" % self.name


def _cidx(v):
    if v is None or isinstance(v, int):
        return v
    return v.__index__()


class Arr:
    """n-d array of S elements (real NumPy object array as the container)."""

    def __init__(self, a, k):
        self.a = a
        self.dtype = DT(k)

    shape = property(lambda s: s.a.shape)
    ndim = property(lambda s: s.a.ndim)
    size = property(lambda s: s.a.size)
    nbytes = property(lambda s: s.a.size * s.dtype.itemsize)
    T = property(lambda s: Arr(s.a.T, s.dtype))

    def transpose(self, *axes):
        return Arr(self.a.transpose(*axes), self.dtype)

    def reshape(self, *shape):
        shp = shape[0] if len(shape) == 1 and isinstance(shape[0], (tuple, list)) else shape
        return Arr(self.a.reshape(tuple(_cidx(x) for x in shp)), self.dtype)

    def ravel(self):
        return Arr(self.a.ravel(), self.dtype)

    def __len__(self):
        return len(self.a)

    def __iter__(self):
        for x in self.a:
            yield Arr(x, self.dtype) if isinstance(x, rnp.ndarray) else x

    def astype(self, d, copy=True):
        d = DT(d)
        if self.a.size == 0:
            return Arr(rnp.empty(self.a.shape, dtype=object), d)
        if d.k == "f8":
            f = rnp.frompyfunc(lambda x: x if x.kind == "f" else S(f64_round(T(x)), "f"), 1, 1)
        elif self.dtype.k == "f8":
            f = rnp.frompyfunc(lambda x: S(from_f64(T(x), d.k), d.k), 1, 1)
        else:
            f = rnp.frompyfunc(lambda x: S(wrap(T(x), d.k), d.k), 1, 1)
        if self.a.ndim == 0:
            r = rnp.empty((), dtype=object)
            r[()] = f(self.a[()])
            return Arr(r, d)
        return Arr(f(self.a), d)

    def tolist(self):
        if self.a.size == 0:
            return self.a.tolist()
        f = rnp.frompyfunc(lambda x: S(T(x), "py"), 1, 1)
        return f(self.a).tolist()

    def tofile(self, f):
        if self.dtype.k == "f8":
            if self.a.size:
                raise HarnessError("tofile of float data")
            return
        n = self.dtype.itemsize
        for x in self.a.flat:
            f.write(le_bytes(T(x), n))

    def __getitem__(self, k):
        if isinstance(k, BoolArr):
            # boolean mask: every mask element is decided on this path (fork), then a concrete gather
            k = k.decide()
        elif isinstance(k, slice):
            k = slice(_cidx(k.start), _cidx(k.stop), _cidx(k.step))
        elif isinstance(k, S):
            k = k.__index__()
        r = self.a[k]
        return Arr(r, self.dtype) if isinstance(r, rnp.ndarray) else r

    def copy(self):
        return Arr(self.a.copy(), self.dtype)

    def sum(self, axis=None, dtype=None):
        return NP.sum(self, dtype=dtype, axis=axis)

    def __getattr__(self, name):
        # an unmodelled attribute must never look like an exception of the library (C12 counts exceptions as rejections)
        if name.startswith("__") and name.endswith("__"):
            raise AttributeError(name)
        raise HarnessError("bvio: ndarray.%s is not modelled" % name)

    def _cmp(self, o, f):
        if isinstance(o, Arr):
            if o.a.shape != self.a.shape:
                raise HarnessError("bvio: comparison of arrays of different shapes")
            other = o.a
        else:
            other = None
        out = rnp.empty(self.a.shape, dtype=object)
        for pos in rnp.ndindex(*self.a.shape):
            out[pos] = mkbool(f(T(self.a[pos]), T(other[pos] if other is not None else o)))
        return BoolArr(out)

    def __gt__(self, o):
        return self._cmp(o, lambda a, b: a > b)

    def __ge__(self, o):
        return self._cmp(o, lambda a, b: a >= b)

    def __lt__(self, o):
        return self._cmp(o, lambda a, b: a < b)

    def __le__(self, o):
        return self._cmp(o, lambda a, b: a <= b)

    def __eq__(self, o):
        if not isinstance(o, (Arr, S, int)):
            return NotImplemented
        return self._cmp(o, lambda a, b: a == b)

    def __ne__(self, o):
        if not isinstance(o, (Arr, S, int)):
            return NotImplemented
        return self._cmp(o, lambda a, b: a != b)

    __hash__ = None

    def max(self):
        return NP.max(self)


class BoolArr:
    """Array of (possibly symbolic) booleans produced by comparing an Arr."""

    def __init__(self, a):
        self.a = a
        self.dtype = bool

    shape = property(lambda s: s.a.shape)

    def decide(self):
        out = rnp.zeros(self.a.shape, dtype=bool)
        for pos in rnp.ndindex(*self.a.shape):
            out[pos] = bool(self.a[pos])
        return out

    def __invert__(self):
        out = rnp.empty(self.a.shape, dtype=object)
        for pos in rnp.ndindex(*self.a.shape):
            out[pos] = mkbool(z3.Not(self.a[pos].t)) if isinstance(self.a[pos], SBool) else (not self.a[pos])
        return BoolArr(out)

    def any(self):
        return any(bool(x) for x in self.a.flat)

    def all(self):
        return all(bool(x) for x in self.a.flat)

    def sum(self):
        return int(self.decide().sum())

    def __len__(self):
        return len(self.a)


class Opaque:
    """Row-id array with a symbolic length and no element storage (C11 size field)."""

    def __init__(self, n, k="u4"):
        self.n = n
        self.dtype = DT(k)

    def tofile(self, f):
        f.skip(S(self.n) * self.dtype.itemsize)


def le_bytes(t, n):
    return [z3.simplify(z3.Extract(8 * i + 7, 8 * i, t)) for i in range(n)]


def from_le(bs):
    if not bs:
        return I(0)
    return z3.simplify(z3.ZeroExt(W - 8 * len(bs), z3.Concat(*reversed(bs)) if len(bs) > 1 else bs[0]))


def bv8(b):
    return [z3.BitVecVal(x, 8) for x in b]


class SBytes:
    def __init__(self, bs):
        self.bs = bs

    def __getattr__(self, name):
        if name.startswith("__") and name.endswith("__"):
            raise AttributeError(name)
        raise HarnessError("bvio: %s.%s is not modelled" % (type(self).__name__, name))

    def __ne__(self, o):
        if isinstance(o, SBytes):
            o2 = o.bs
        else:
            o2 = bv8(o)
        if len(o2) != len(self.bs):
            return True
        return mkbool(z3.Or([a != b for a, b in zip(self.bs, o2)])) if self.bs else False

    def __eq__(self, o):
        r = self.__ne__(o)
        if isinstance(r, bool):
            return not r
        return mkbool(z3.Not(r.t))

    __hash__ = None

    def __len__(self):
        return len(self.bs)

    def __getitem__(self, k):
        if isinstance(k, slice):
            k = slice(_cidx(k.start), _cidx(k.stop), _cidx(k.step))
        else:
            k = _cidx(k)
        r = self.bs[k]
        return SBytes(r) if isinstance(k, slice) else r

    def __repr__(self):
        return "<%d bytes>" % len(self.bs)

    __str__ = __repr__


class File:
    """File object over a byte list.  ``size``: symbolic visible length (torn file) or None."""

    def __getattr__(self, name):
        if name.startswith("__") and name.endswith("__"):
            raise AttributeError(name)
        raise HarnessError("bvio: %s.%s is not modelled" % (type(self).__name__, name))

    def __init__(self, data=None, size=None):
        self.data = data if data is not None else []
        self.pos = 0
        self.size = size

    def write(self, b):
        bs = bv8(b) if isinstance(b, (bytes, bytearray)) else list(b.bs if isinstance(b, SBytes) else b)
        self.data[self.pos:self.pos + len(bs)] = bs
        self.pos += len(bs)
        return len(bs)

    def tell(self):
        return self.pos

    def seek(self, p, whence=0):
        if isinstance(p, S):
            p = conc(p.t)
        self.pos = p if whence == 0 else (self.pos + p if whence == 1 else len(self.data) + p)
        return self.pos

    def fileno(self):
        return self

    def flush(self):
        pass

    def close(self):
        pass

    def __enter__(self):
        return self

    def __exit__(self, *a):
        return False

    def read(self, n=-1):
        if isinstance(n, S):
            n = conc(n.t)
        if self.size is None:
            vis = len(self.data)
        else:
            if n is not None and n >= 0 and E().branch(self.size >= I(self.pos + n)):
                vis = self.pos + n
            else:
                vis = conc(self.size)
        if n is None or n < 0:
            n = max(0, vis - self.pos)
        avail = max(0, min(n, vis - self.pos))
        r = self.data[self.pos:self.pos + avail]
        self.pos += avail
        return SBytes(r)

    def readinto(self, buf):
        if not isinstance(buf, SBytes):
            raise HarnessError("bvio: readinto(%r)" % type(buf))
        got = self.read(len(buf.bs))
        buf.bs[:len(got.bs)] = got.bs
        return len(got.bs)


class SizeFile:
    """Position-only file for the size-field obligation (payload never materialised)."""

    def __init__(self):
        self.pos = S(I(0))
        self.head = []

    def write(self, b):
        bs = bv8(b) if isinstance(b, (bytes, bytearray)) else list(b.bs if isinstance(b, SBytes) else b)
        if len(self.head) < 16:
            self.head += bs[:16 - len(self.head)]
        self.pos = self.pos + len(bs)

    def skip(self, n):
        self.pos = self.pos + n

    def tell(self):
        return self.pos


FMT = {"<Q": 8, "<L": 4, "<H": 2, "<B": 1, "<I": 4}


def _fields(fmt):
    """Standard-size struct format -> ([field sizes], big_endian).  Native ('@' or no prefix) formats
    have platform alignment and are not modelled."""
    if not isinstance(fmt, str) or not fmt or fmt[0] not in "<>!=":
        raise HarnessError("struct format %r" % (fmt,))
    big = fmt[0] in ">!"
    if fmt[0] == "=" and sys.byteorder != "little":
        raise HarnessError("struct format %r on a big-endian host" % (fmt,))
    sizes = []
    cnt = ""
    for ch in fmt[1:]:
        if ch.isdigit():
            cnt += ch
            continue
        if ch.isspace():
            continue
        if ch == "x":
            sizes.extend([-1] * int(cnt or 1))
        elif ch in _FSIZE:
            sizes.extend([_FSIZE[ch]] * int(cnt or 1))
        else:
            raise HarnessError("struct format %r" % (fmt,))
        cnt = ""
    return sizes, big


_FSIZE = {"Q": 8, "L": 4, "I": 4, "H": 2, "B": 1}


def _fmt(fmt):
    sizes, big = _fields(fmt)
    if len(sizes) != 1 or sizes[0] < 0:
        raise HarnessError("struct format %r" % (fmt,))
    return sizes[0], big


class _StrictNS(type):
    def __getattr__(cls, name):
        if name.startswith("__") and name.endswith("__"):
            raise AttributeError(name)
        raise HarnessError("bvio: %s.%s is not modelled" % (cls.__name__, name))


class struct_(metaclass=_StrictNS):
    error = rstruct.error

    @staticmethod
    def pack(fmt, *vs):
        sizes, big = _fields(fmt)
        if len(vs) != len([n for n in sizes if n > 0]):
            raise rstruct.error("pack expected %d items for packing (got %d)" % (len(sizes), len(vs)))
        out = []
        vs = list(vs)
        for n in sizes:
            if n < 0:
                out.extend(bv8(b"\0"))
                continue
            v = vs.pop(0)
            if isinstance(v, (S, SBool)):
                t = T(v)
                if not E().branch(z3.And(t >= 0, t < I(256 ** n))):
                    raise rstruct.error("argument out of range")
                bs = le_bytes(t, n)
            else:
                bs = bv8(rstruct.pack("<" + {8: "Q", 4: "L", 2: "H", 1: "B"}[n], v))
            out.extend(bs[::-1] if big else bs)
        return SBytes(out)

    @staticmethod
    def _unpack(sizes, big, bs):
        out = []
        p = 0
        for n in sizes:
            if n > 0:
                part = list(bs[p:p + n])
                out.append(S(from_le(part[::-1] if big else part)))
            p += abs(n)
        return tuple(out)

    @staticmethod
    def unpack(fmt, b):
        sizes, big = _fields(fmt)
        n = sum(abs(x) for x in sizes)
        if len(b) != n:
            raise rstruct.error("unpack requires a buffer of %d bytes" % n)
        return struct_._unpack(sizes, big, list(b.bs))

    @staticmethod
    def unpack_from(fmt, buf, offset=0):
        sizes, big = _fields(fmt)
        n = sum(abs(x) for x in sizes)
        offset = _cidx(offset)
        if offset < 0:
            offset += len(buf.bs)
        if offset < 0 or offset + n > len(buf.bs):
            raise rstruct.error("unpack_from requires a buffer of at least %d bytes" % (offset + n))
        return struct_._unpack(sizes, big, list(buf.bs[offset:offset + n]))

    @staticmethod
    def calcsize(fmt):
        return sum(abs(x) for x in _fields(fmt)[0])


def sx_from_bytes(b, byteorder="big", *, signed=False):
    """int.from_bytes over symbolic bytes."""
    if not isinstance(b, SBytes):
        return int.from_bytes(b, byteorder, signed=signed)
    if signed:
        raise HarnessError("int.from_bytes(signed=True)")
    bs = list(b.bs)
    if len(bs) > 9:
        raise HarnessError("int.from_bytes of %d bytes" % len(bs))
    return S(from_le(bs if byteorder == "little" else bs[::-1]))


class mmap_(metaclass=_StrictNS):
    PAGESIZE = 4096
    ALLOCATIONGRANULARITY = 4096
    MAP_SHARED = 1
    MAP_PRIVATE = 2
    PROT_READ = 1
    PROT_WRITE = 2
    ACCESS_READ = 1

    @staticmethod
    def mmap(f, length, flags=None, prot=None, access=None, offset=0):
        if not isinstance(f, File):
            raise HarnessError("mmap of a non-stub file")
        if offset:
            raise HarnessError("mmap offset")
        eng = E()
        lt = T(length)
        if f.size is None:
            L = conc(lt)
            vis = len(f.data)
            if L < 0:
                raise OverflowError("memory mapped length must be positive")
            if vis == 0:
                raise ValueError("cannot mmap an empty file")
            if L > vis:
                raise ValueError("mmap length is greater than file size")
            return SBytes(f.data[:L] if L else f.data[:vis])
        if eng.branch(lt < I(0)):
            raise OverflowError("memory mapped length must be positive")
        if eng.branch(f.size == I(0)):
            raise ValueError("cannot mmap an empty file")
        if eng.branch(lt > f.size):
            raise ValueError("mmap length is greater than file size")
        L = conc(lt)
        return SBytes(f.data[:L] if L else f.data[:conc(f.size)])


def _mk_type(k):
    return type(NPNAME[k], (), {"k": k})


class NP(metaclass=_StrictNS):
    uint8 = _mk_type("u1")
    uint16 = _mk_type("u2")
    uint32 = _mk_type("u4")
    uint64 = _mk_type("u8")
    int8 = _mk_type("i1")
    int16 = _mk_type("i2")
    int32 = _mk_type("i4")
    int64 = _mk_type("i8")
    dtype = DT
    generic = S

    class ndarray_cls:
        pass

    @staticmethod
    def array(x, dtype=None):
        rows = list(x)
        if dtype is None and not rows:
            return Arr(rnp.empty((0,), dtype=object), "f8")      # numpy.array([]) is float64
        k = DT(dtype).k if dtype is not None else "i8"
        if rows and isinstance(rows[0], (tuple, list)):
            a = rnp.empty((len(rows), len(rows[0])), dtype=object)
            for i, r in enumerate(rows):
                if len(r) != len(rows[0]):
                    raise ValueError("setting an array element with a sequence (inhomogeneous shape)")
                for j, v in enumerate(r):
                    a[i, j] = NP._store(v, k)
        else:
            a = rnp.empty((len(rows),), dtype=object)
            for i, v in enumerate(rows):
                a[i] = NP._store(v, k)
        return Arr(a, k)

    @staticmethod
    def _store(v, k):
        """Python int stored into a NumPy integer array: OverflowError outside the dtype (NumPy 2)."""
        bits, signed = NPK[k]
        lo, hi = (-(2 ** (bits - 1)), 2 ** (bits - 1) - 1) if signed else (0, 2 ** bits - 1)
        if isinstance(v, S) and v.kind == "py":
            if not E().branch(z3.And(v.t >= I(lo), v.t <= I(hi))):
                raise OverflowError("Python integer out of bounds for %s" % NPNAME[k])
            return S(v.t, k)
        if isinstance(v, S):
            return S(wrap(v.t, k), k)
        if not lo <= int(v) <= hi:
            raise OverflowError("Python integer %d out of bounds for %s" % (v, NPNAME[k]))
        return S(I(int(v)), k)

    asarray = array

    @staticmethod
    def _as_arr(x):
        """numpy.asarray of an array or a scalar, with NumPy's dtype choice for Python ints."""
        if isinstance(x, Arr):
            return x
        if isinstance(x, (list, tuple)):
            return NP.array(x)
        if isinstance(x, S) and x.kind not in ("py",):
            k = "f8" if x.kind == "f" else x.kind
            a = rnp.empty((), dtype=object)
            a[()] = x
            return Arr(a, k)
        t = T(x)
        if E().branch(z3.And(t >= I(-(2 ** 63)), t < I(2 ** 63))):
            k = "i8"
        elif E().branch(z3.And(t >= I(0), t < I(2 ** 64))):
            k = "u8"
        else:
            raise HarnessError("Python integer beyond 64 bits as an array (object dtype)")
        a = rnp.empty((), dtype=object)
        a[()] = S(t, k)
        return Arr(a, k)

    @staticmethod
    def concatenate(arrs, axis=0, dtype=None):
        arrs = [NP._as_arr(a) for a in arrs]
        if axis is not None and any(a.ndim != arrs[0].ndim or a.ndim == 0 for a in arrs):
            raise ValueError("all the input array dimensions must match / zero-dimensional arrays cannot be concatenated")
        if axis not in (None, 0) or any(a.ndim > 1 for a in arrs) and axis is not None:
            raise HarnessError("concatenate along axis %r of n-d arrays" % (axis,))
        if dtype is not None:
            k = DT(dtype).k
        else:
            r = rnp.result_type(*[rnp.dtype("f8" if a.dtype.k == "f8" else a.dtype.k) for a in arrs])
            if r.kind == "f":
                k = "f8"
            elif r.kind in "iu":
                k = r.str[1:]
            else:
                raise HarnessError("concatenate result type %s" % r)
        parts = [a.astype(k).a.ravel() for a in arrs]
        return Arr(rnp.concatenate(parts) if parts else rnp.empty((0,), dtype=object), k)

    @staticmethod
    def append(arr, values, axis=None):
        if axis is not None:
            raise HarnessError("numpy.append with an axis")
        return NP.concatenate((arr, values), axis=None)

    @staticmethod
    def ravel(a):
        a = NP._as_arr(a)
        return Arr(a.a.ravel(), a.dtype)

    @staticmethod
    def max(arr):
        if arr.a.size == 0:
            raise ValueError("zero-size array to reduction operation maximum which has no identity")
        m = None
        for x in arr.a.flat:
            m = T(x) if m is None else z3.If(T(x) > m, T(x), m)
        return S(m, arr.dtype.k)

    amax = max

    @staticmethod
    def ndarray(shape, dtype=float, buffer=None, offset=0, strides=None, order=None):
        shp = (shape,) if not isinstance(shape, tuple) else shape
        shp = tuple(_cidx(x) for x in shp)
        if any(e < 0 for e in shp):
            raise ValueError("negative dimensions are not allowed")
        n = 1
        for e in shp:
            n *= e
        dtype = DT(dtype)
        w = dtype.itemsize
        offset = _cidx(offset)
        if not isinstance(buffer, SBytes):
            raise HarnessError("ndarray(buffer=%r)" % type(buffer))
        if offset < 0 or offset + n * w > len(buffer.bs):
            raise TypeError("buffer is too small for requested array")
        a = rnp.empty(n, dtype=object)
        for i in range(n):
            a[i] = S(from_le(buffer.bs[offset + i * w:offset + (i + 1) * w]), dtype.k)
        return Arr(a.reshape(shp), dtype)

    @staticmethod
    def sum(arr, dtype=None, axis=None):
        k = DT(dtype).k if dtype is not None else ("u8" if not NPK[arr.dtype.k][1] else "i8")
        t = I(0)
        for x in arr.a.flat:
            t = t + T(x)
        return S(wrap(t, k), k)

    @staticmethod
    def frombuffer(buffer, dtype=float, count=-1, offset=0):
        dtype = DT(dtype)
        w = dtype.itemsize
        offset = _cidx(offset)
        count = _cidx(count)
        if count < 0:
            if (len(buffer.bs) - offset) % w:
                raise ValueError("buffer size must be a multiple of element size")
            count = (len(buffer.bs) - offset) // w
        return NP.ndarray((count,), dtype=dtype, buffer=buffer, offset=offset)


def sx_type(x):
    if isinstance(x, S):
        return int if x.kind == "py" else getattr(NP, NPNAME[x.kind])
    return type(x)


def sx_int(x, *a):
    if isinstance(x, S):
        return S(x.trunc(), "py")
    return int(x, *a)


def sx_bytearray(x=0, *a):
    """bytearray(n): n zero bytes as a mutable symbolic buffer (readinto target, struct / ndarray source)."""
    if a:
        raise HarnessError("bvio: bytearray with an encoding")
    if isinstance(x, SBytes):
        return SBytes(list(x.bs))
    if isinstance(x, (bytes, bytearray)):
        return SBytes(bv8(bytes(x)))
    n = _cidx(x)
    if n < 0:
        raise ValueError("negative count")
    if n > 1 << 24:
        raise MemoryError("bytearray(%d)" % n)
    return SBytes([z3.BitVecVal(0, 8) for _ in range(n)])


def sx_fmt(fmt, args):
    """'...' % args without evaluating symbolic values (messages are never compared)."""
    def plain(v):
        return 0 if isinstance(v, S) else v
    try:
        if isinstance(args, tuple):
            return fmt % tuple(plain(v) for v in args)
        if isinstance(args, dict):
            return fmt % {k: plain(v) for k, v in args.items()}
        return fmt % (plain(args),)
    except (TypeError, ValueError):
        return fmt


def sx_len(x):
    if isinstance(x, Opaque):
        return S(x.n)
    return len(x)


def sx_isinstance(x, t):
    if isinstance(x, S):
        ts = t if isinstance(t, tuple) else (t,)
        for c in ts:
            if c is int and x.kind == "py":
                return True
            if c is S:
                return x.kind != "py"
        return False
    return isinstance(x, t)


class _RW(ast.NodeTransformer):
    def visit_Call(self, n):
        self.generic_visit(n)
        if isinstance(n.func, ast.Name) and n.func.id in ("len", "type", "int", "isinstance", "bytearray"):
            n.func = ast.Name("_sx_" + n.func.id, ast.Load())
        elif (isinstance(n.func, ast.Attribute) and n.func.attr == "from_bytes"
              and isinstance(n.func.value, ast.Name) and n.func.value.id == "int"):
            n.func = ast.Name("_sx_from_bytes", ast.Load())
        return n

    def visit_BinOp(self, n):
        self.generic_visit(n)
        if isinstance(n.op, ast.Mod) and isinstance(n.left, ast.Constant) and isinstance(n.left.value, str):
            return ast.copy_location(ast.Call(ast.Name("_sx_fmt", ast.Load()), [n.left, n.right], []), n)
        return n


def load_indxio():
    """Compile the working tree's indxio.py (and fit_dtype from iindexes.py) over the stubs."""
    src = src_dir()
    tree = _RW().visit(ast.parse(open(os.path.join(src, "indxio.py")).read()))
    ast.fix_missing_locations(tree)
    m = types.ModuleType("catii.indxio")
    m.__package__ = "catii"
    fit_src = ast.parse(open(os.path.join(src, "iindexes.py")).read())
    fn = [n for n in fit_src.body if isinstance(n, ast.FunctionDef) and n.name == "fit_dtype"][0]
    ii = types.ModuleType("catii.iindexes")
    ii.numpy = NP
    exec(compile(ast.Module([fn], []), os.path.join(src, "iindexes.py"), "exec"), ii.__dict__)
    saved = {k: sys.modules.get(k) for k in ("catii", "catii.iindexes", "numpy", "struct", "mmap")}
    pkg = types.ModuleType("catii")
    pkg.__path__ = []
    sys.modules["catii"] = pkg
    sys.modules["catii.iindexes"] = ii
    m.__dict__.update(_sx_len=sx_len, _sx_type=sx_type, _sx_int=sx_int, _sx_isinstance=sx_isinstance, _sx_from_bytes=sx_from_bytes, _sx_fmt=sx_fmt, _sx_bytearray=sx_bytearray)
    sys.modules["numpy"] = NP
    sys.modules["struct"] = struct_
    sys.modules["mmap"] = mmap_
    try:
        exec(compile(tree, os.path.join(src, "indxio.py"), "exec"), m.__dict__)
    finally:
        for k, v in saved.items():
            if v is None:
                sys.modules.pop(k, None)
            else:
                sys.modules[k] = v
    return m
