"""Symbolic scalars (DESIGN.md section 2.2).

Concrete values stay plain Python objects (bool, int, fractions.Fraction,
float nan/inf); only values that depend on a solver variable are wrapped:

  SBool  z3 Bool;  ``__bool__`` is the engine's fork point
  SInt   z3 Int  (Python int semantics: unbounded)
  SReal  z3 Real + NaN flag + inf flag (float64 modelled as exact rationals plus
         IEEE tags; rounding is outside every claim)

All arithmetic helpers (e_add, e_lt, ...) accept any mix of concrete and
symbolic operands and return a concrete value whenever both are concrete.
"""
import math
import operator
from fractions import Fraction

import z3

from .engine import E, HarnessError

IV = z3.IntVal
RV = z3.RealVal
TRUE = z3.BoolVal(True)
FALSE = z3.BoolVal(False)


# ---------------------------------------------------------------- bool helpers
def bt(x):
    """z3 Bool term of a truth value."""
    if isinstance(x, SBool):
        return x.t
    if isinstance(x, z3.BoolRef):
        return x
    if isinstance(x, (bool, int)):
        return TRUE if x else FALSE
    if isinstance(x, SInt):
        return x.t != 0
    if isinstance(x, SReal):
        return z3.Or(bt(x.nan), bt(x.inf), x.t != 0)
    if isinstance(x, Fraction):
        return TRUE if x else FALSE
    if isinstance(x, float):
        return TRUE if x else FALSE
    raise HarnessError("bt: %r" % (type(x),))


def mkbool(t):
    """Python bool when the term is decided, else SBool."""
    if t is True or t is False:
        return t
    t = z3.simplify(t)
    if z3.is_true(t):
        return True
    if z3.is_false(t):
        return False
    return SBool(t)


def f_or(*xs):
    """or over flags that are Python bools or z3 Bool terms; stays Python when it can."""
    out = []
    for x in xs:
        if x is True:
            return True
        if x is False:
            continue
        out.append(x)
    if not out:
        return False
    if len(out) == 1:
        return out[0]
    return z3.Or(*out)


def f_and(*xs):
    out = []
    for x in xs:
        if x is False:
            return False
        if x is True:
            continue
        out.append(x)
    if not out:
        return True
    if len(out) == 1:
        return out[0]
    return z3.And(*out)


def f_not(x):
    if x is True:
        return False
    if x is False:
        return True
    return z3.Not(x)


def f_ite(c, a, b):
    """ite over flags."""
    if c is True:
        return a
    if c is False:
        return b
    if a is b:
        return a
    return z3.If(c, bt(a), bt(b))


class SBool:
    __slots__ = ("t",)

    def __init__(self, t):
        self.t = t

    def __bool__(self):
        return E().branch(self.t)

    def __invert__(self):
        return mkbool(z3.Not(self.t))

    def __and__(self, o):
        if hasattr(o, '__array_priority__'):
            return NotImplemented
        return e_and(self, o)

    __rand__ = __and__

    def __or__(self, o):
        if hasattr(o, '__array_priority__'):
            return NotImplemented
        return e_or(self, o)

    __ror__ = __or__

    def __xor__(self, o):
        if hasattr(o, '__array_priority__'):
            return NotImplemented
        return mkbool(z3.Xor(self.t, bt(o)))

    __rxor__ = __xor__

    def __eq__(self, o):
        if hasattr(o, '__array_priority__'):
            return NotImplemented
        return e_eq(self, o)

    def __ne__(self, o):
        if hasattr(o, '__array_priority__'):
            return NotImplemented
        return e_ne(self, o)

    def __hash__(self):
        return hash(bool(self))

    def _i(self):
        return SInt(z3.If(self.t, IV(1), IV(0)))

    def __add__(self, o):
        if hasattr(o, '__array_priority__'):
            return NotImplemented
        return e_add(self, o)

    __radd__ = __add__

    def __sub__(self, o):
        if hasattr(o, '__array_priority__'):
            return NotImplemented
        return e_sub(self, o)

    def __rsub__(self, o):
        if hasattr(o, '__array_priority__'):
            return NotImplemented
        return e_sub(o, self)

    def __mul__(self, o):
        if hasattr(o, '__array_priority__'):
            return NotImplemented
        return e_mul(self, o)

    __rmul__ = __mul__

    def __index__(self):
        return int(bool(self))

    __int__ = __index__

    def __repr__(self):
        return "<SBool>"

    __str__ = __repr__


# ---------------------------------------------------------------- int
def it(x):
    """z3 Int term."""
    if isinstance(x, SInt):
        return x.t
    if isinstance(x, bool):
        return IV(int(x))
    if isinstance(x, int):
        return IV(x)
    if isinstance(x, SBool):
        return z3.If(x.t, IV(1), IV(0))
    if isinstance(x, Fraction) and x.denominator == 1:
        return IV(int(x))
    if isinstance(x, z3.ArithRef) and x.is_int():
        return x
    if isinstance(x, SReal):
        if x.i is True:
            return z3.ToInt(x.t)        # integer-valued by construction
        if x.i is not None:
            return x.i          # integer-valued real: the exact Int twin
        # truncation toward zero (C cast); NaN/inf -> unspecified, callers guard
        return z3.If(x.t >= 0, z3.ToInt(x.t), -z3.ToInt(-x.t))
    if isinstance(x, Fraction):
        return IV(int(x))      # trunc toward zero
    if hasattr(x, "__index__"):
        return IV(operator.index(x))
    raise HarnessError("it: %r" % (type(x),))


def mkint(t):
    t = z3.simplify(t)
    if z3.is_int_value(t):
        return t.as_long()
    return SInt(t)


class SInt:
    __slots__ = ("t",)

    def __init__(self, t):
        self.t = t

    # arithmetic
    def __add__(self, o):
        if hasattr(o, '__array_priority__'):
            return NotImplemented
        return e_add(self, o)

    def __radd__(self, o):
        if hasattr(o, '__array_priority__'):
            return NotImplemented
        return e_add(o, self)

    def __sub__(self, o):
        if hasattr(o, '__array_priority__'):
            return NotImplemented
        return e_sub(self, o)

    def __rsub__(self, o):
        if hasattr(o, '__array_priority__'):
            return NotImplemented
        return e_sub(o, self)

    def __mul__(self, o):
        if hasattr(o, '__array_priority__'):
            return NotImplemented
        return e_mul(self, o)

    def __rmul__(self, o):
        if hasattr(o, '__array_priority__'):
            return NotImplemented
        return e_mul(o, self)

    def __truediv__(self, o):
        if hasattr(o, '__array_priority__'):
            return NotImplemented
        return e_div(self, o)

    def __rtruediv__(self, o):
        if hasattr(o, '__array_priority__'):
            return NotImplemented
        return e_div(o, self)

    def __floordiv__(self, o):
        if hasattr(o, '__array_priority__'):
            return NotImplemented
        return e_floordiv(self, o)

    def __rfloordiv__(self, o):
        if hasattr(o, '__array_priority__'):
            return NotImplemented
        return e_floordiv(o, self)

    def __mod__(self, o):
        if hasattr(o, '__array_priority__'):
            return NotImplemented
        return e_mod(self, o)

    def __rmod__(self, o):
        if isinstance(o, str):
            return o % ("<sym>",)
        return e_mod(o, self)

    def __neg__(self):
        return mkint(-self.t)

    def __pos__(self):
        return self

    def __abs__(self):
        return mkint(z3.If(self.t >= 0, self.t, -self.t))

    def __pow__(self, o):
        if hasattr(o, '__array_priority__'):
            return NotImplemented
        return e_pow(self, o)

    # comparisons
    def __eq__(self, o):
        if hasattr(o, '__array_priority__'):
            return NotImplemented
        return e_eq(self, o)

    def __ne__(self, o):
        if hasattr(o, '__array_priority__'):
            return NotImplemented
        return e_ne(self, o)

    def __lt__(self, o):
        if hasattr(o, '__array_priority__'):
            return NotImplemented
        return e_lt(self, o)

    def __le__(self, o):
        if hasattr(o, '__array_priority__'):
            return NotImplemented
        return e_le(self, o)

    def __gt__(self, o):
        if hasattr(o, '__array_priority__'):
            return NotImplemented
        return e_lt(o, self)

    def __ge__(self, o):
        if hasattr(o, '__array_priority__'):
            return NotImplemented
        return e_le(o, self)

    def __bool__(self):
        return E().branch(self.t != 0)

    def __index__(self):
        return E().concretize(self.t)

    __int__ = __index__

    def __hash__(self):
        return hash(E().concretize(self.t))

    def __float__(self):
        raise HarnessError("float() of a symbolic int (needs the __sx_float rewrite)")

    def __repr__(self):
        return "<SInt>"

    __str__ = __repr__

    def __format__(self, spec):
        return "<SInt>"


class SKey(SInt):
    """Symbolic dictionary key: constant hash, solver-decided equality (section 2.4)."""
    __slots__ = ()

    def __hash__(self):
        return 0

    def __repr__(self):
        return "<SKey>"


# ---------------------------------------------------------------- real
def is_nan(x):
    return isinstance(x, float) and math.isnan(x)


def is_inf(x):
    return isinstance(x, float) and math.isinf(x)


def cfrac(x):
    """Exact concrete value: Fraction for finite numbers, float for nan/inf."""
    if isinstance(x, Fraction):
        return x
    if isinstance(x, bool):
        return Fraction(int(x))
    if isinstance(x, int):
        return Fraction(x)
    if isinstance(x, float):
        if math.isnan(x) or math.isinf(x):
            return x
        return Fraction(x)
    raise HarnessError("cfrac: %r" % (type(x),))


def rparts(x):
    """(real term, nan flag, inf flag) of any scalar; for inf the term holds the sign."""
    if isinstance(x, SReal):
        return x.t, x.nan, x.inf
    if isinstance(x, SInt):
        return z3.ToReal(x.t), False, False
    if isinstance(x, SBool):
        return z3.If(x.t, RV(1), RV(0)), False, False
    if isinstance(x, float):
        if math.isnan(x):
            return RV(0), True, False
        if math.isinf(x):
            return RV(1 if x > 0 else -1), False, True
        x = Fraction(x)
    if isinstance(x, bool):
        x = int(x)
    if isinstance(x, int):
        return RV(x), False, False
    if isinstance(x, Fraction):
        return RV(str(x)), False, False
    raise HarnessError("rparts: %r" % (type(x),))


def ipart(x):
    """Int term equal to x when x is known to be integer-valued, else None."""
    if isinstance(x, SReal):
        return None if x.i is True else x.i
    if isinstance(x, SInt):
        return x.t
    if isinstance(x, SBool):
        return z3.If(x.t, IV(1), IV(0))
    if isinstance(x, bool):
        return IV(int(x))
    if isinstance(x, int):
        return IV(x)
    if isinstance(x, Fraction) and x.denominator == 1:
        return IV(int(x))
    return None


def intvalued(x):
    if isinstance(x, SReal):
        return x.i is not None
    return ipart(x) is not None


def _comb_i(a, b, op):
    """Integer twin / integer-valued marker of op(a, b) for op in + - *."""
    ia, ib = ipart(a), ipart(b)
    if ia is not None and ib is not None:
        return op(ia, ib)
    if intvalued(a) and intvalued(b):
        return True
    return None


def mkreal(t, nan=False, inf=False, i=None):
    """Concrete Fraction / float when decided, else SReal."""
    if nan is not False and nan is not True:
        nan = z3.simplify(nan)
        if z3.is_true(nan):
            nan = True
        elif z3.is_false(nan):
            nan = False
    if inf is not False and inf is not True:
        inf = z3.simplify(inf)
        if z3.is_true(inf):
            inf = True
        elif z3.is_false(inf):
            inf = False
    if nan is True:
        return float("nan")
    t = z3.simplify(t)
    if nan is False and inf is False and z3.is_rational_value(t):
        return Fraction(t.numerator_as_long(), t.denominator_as_long())
    if nan is False and inf is True and z3.is_rational_value(t):
        return float("inf") if t.numerator_as_long() > 0 else float("-inf")
    return SReal(t, nan, inf, i if inf is False else None)


class SReal:
    __slots__ = ("t", "nan", "inf", "i")

    def __init__(self, t, nan=False, inf=False, i=None):
        self.t = t
        self.nan = nan
        self.inf = inf
        self.i = i          # optional z3 Int term with the same value (integer-valued reals)

    def __add__(self, o):
        if hasattr(o, '__array_priority__'):
            return NotImplemented
        return e_add(self, o)

    def __radd__(self, o):
        if hasattr(o, '__array_priority__'):
            return NotImplemented
        return e_add(o, self)

    def __sub__(self, o):
        if hasattr(o, '__array_priority__'):
            return NotImplemented
        return e_sub(self, o)

    def __rsub__(self, o):
        if hasattr(o, '__array_priority__'):
            return NotImplemented
        return e_sub(o, self)

    def __mul__(self, o):
        if hasattr(o, '__array_priority__'):
            return NotImplemented
        return e_mul(self, o)

    def __rmul__(self, o):
        if hasattr(o, '__array_priority__'):
            return NotImplemented
        return e_mul(o, self)

    def __truediv__(self, o):
        if hasattr(o, '__array_priority__'):
            return NotImplemented
        return e_div(self, o)

    def __rtruediv__(self, o):
        if hasattr(o, '__array_priority__'):
            return NotImplemented
        return e_div(o, self)

    def __neg__(self):
        return mkreal(-self.t, self.nan, self.inf)

    def __pos__(self):
        return self

    def __abs__(self):
        return mkreal(z3.If(self.t >= 0, self.t, -self.t), self.nan, self.inf)

    def __pow__(self, o):
        if hasattr(o, '__array_priority__'):
            return NotImplemented
        return e_pow(self, o)

    def __eq__(self, o):
        if hasattr(o, '__array_priority__'):
            return NotImplemented
        return e_eq(self, o)

    def __ne__(self, o):
        if hasattr(o, '__array_priority__'):
            return NotImplemented
        return e_ne(self, o)

    def __lt__(self, o):
        if hasattr(o, '__array_priority__'):
            return NotImplemented
        return e_lt(self, o)

    def __le__(self, o):
        if hasattr(o, '__array_priority__'):
            return NotImplemented
        return e_le(self, o)

    def __gt__(self, o):
        if hasattr(o, '__array_priority__'):
            return NotImplemented
        return e_lt(o, self)

    def __ge__(self, o):
        if hasattr(o, '__array_priority__'):
            return NotImplemented
        return e_le(o, self)

    def __bool__(self):
        return E().branch(bt(self))

    def __hash__(self):
        raise HarnessError("hash of a symbolic real")

    def __float__(self):
        raise HarnessError("float() of a symbolic real")

    def __index__(self):
        raise HarnessError("index() of a symbolic real")

    def __repr__(self):
        return "<SReal>"

    __str__ = __repr__


def is_sym(x):
    return isinstance(x, (SBool, SInt, SReal))


def _is_realish(x):
    return isinstance(x, (SReal, Fraction, float))


def _is_intish(x):
    return isinstance(x, (SInt, SBool, int))       # bool is an int


def _conc(x):
    return not isinstance(x, (SBool, SInt, SReal))


# ---------------------------------------------------------------- arithmetic
def _arith(a, b, iop, rop, cop):
    if _conc(a) and _conc(b):
        if isinstance(a, float) or isinstance(b, float) or isinstance(a, Fraction) or isinstance(b, Fraction):
            a, b = cfrac(a), cfrac(b)
            if isinstance(a, float) or isinstance(b, float):
                return float(cop(float(a), float(b)))
            return cop(a, b)
        return cop(int(a), int(b))
    if _is_realish(a) or _is_realish(b):
        return rop(a, b)
    return mkint(iop(it(a), it(b)))


def _radd(a, b):
    at, an, ai = rparts(a)
    bt_, bn, bi = rparts(b)
    if ai is False and bi is False:
        return mkreal(at + bt_, f_or(an, bn), False, _comb_i(a, b, operator.add))
    # inf handling: inf + (-inf) = nan
    both = f_and(ai, bi)
    opp = f_and(both, (at * bt_) < 0) if both is not False else False
    nan = f_or(an, bn, opp)
    inf = f_or(ai, bi)
    t = z3.If(bt(ai), at, z3.If(bt(bi), bt_, at + bt_))
    return mkreal(t, nan, inf)


def _rneg(b):
    t, n, i = rparts(b)
    ib = ipart(b)
    return SReal(-t, n, i, (-ib if ib is not None else (True if intvalued(b) else None)) if i is False else None)


def _rsub(a, b):
    return _radd(a, _rneg(b))


def _const_ite(t, depth=4):
    """True when t is an if-then-else tree (depth-bounded) whose leaves are all numerals."""
    if z3.is_rational_value(t) or z3.is_int_value(t):
        return True
    if depth and z3.is_app_of(t, z3.Z3_OP_ITE):
        return _const_ite(t.arg(1), depth - 1) and _const_ite(t.arg(2), depth - 1)
    return False


def _distribute(x, t):
    """x * t with the product pushed to the numeral leaves of the ite tree t (keeps VCs linear)."""
    if z3.is_app_of(t, z3.Z3_OP_ITE):
        return z3.If(t.arg(0), _distribute(x, t.arg(1)), _distribute(x, t.arg(2)))
    return x * t


def _lin_mul(at, bt_):
    if z3.is_rational_value(at) or z3.is_rational_value(bt_):
        return at * bt_
    if _const_ite(bt_):
        return _distribute(at, bt_)
    if _const_ite(at):
        return _distribute(bt_, at)
    return at * bt_


def _rmul(a, b):
    at, an, ai = rparts(a)
    bt_, bn, bi = rparts(b)
    if ai is False and bi is False:
        return mkreal(_lin_mul(at, bt_), f_or(an, bn), False, _comb_i(a, b, operator.mul))
    inf = f_or(ai, bi)
    zero_times_inf = f_or(f_and(ai, f_not(bi), bt_ == 0), f_and(bi, f_not(ai), at == 0))
    nan = f_or(an, bn, zero_times_inf)
    sgn = lambda t: z3.If(t > 0, RV(1), z3.If(t < 0, RV(-1), RV(0)))
    t = z3.If(bt(inf), sgn(at) * sgn(bt_), at * bt_)
    return mkreal(t, nan, inf)


def _rdiv(a, b):
    at, an, ai = rparts(a)
    bt_, bn, bi = rparts(b)
    bz = z3.simplify(bt_ == 0)
    if ai is False and bi is False and z3.is_false(bz):
        return mkreal(at / bt_, f_or(an, bn), False)
    bzero = f_and(f_not(bi), True if z3.is_true(bz) else bz)
    azero = f_and(f_not(ai), at == 0)
    nan = f_or(an, bn, f_and(bzero, azero), f_and(ai, bi))
    inf = f_and(f_not(nan), f_or(f_and(bzero, f_not(azero)), f_and(ai, f_not(bi))))
    sgn = lambda t: z3.If(t > 0, RV(1), z3.If(t < 0, RV(-1), RV(1)))
    safe_den = z3.If(bt(bzero), RV(1), bt_)
    t = z3.If(bt(inf), sgn(at) * sgn(bt_), z3.If(bt(bi), RV(0), at / safe_den))
    return mkreal(t, nan, inf)


def e_add(a, b):
    return _arith(a, b, operator.add, _radd, operator.add)


def e_sub(a, b):
    return _arith(a, b, operator.sub, _rsub, operator.sub)


def e_mul(a, b):
    return _arith(a, b, operator.mul, _rmul, operator.mul)


def e_div(a, b):
    """True division (float semantics: x/0 gives tagged inf / nan)."""
    if _conc(a) and _conc(b):
        a, b = cfrac(a), cfrac(b)
        if isinstance(a, float) or isinstance(b, float) or b == 0:
            fa, fb = float(a), float(b)
            if fb == 0:
                if fa == 0 or math.isnan(fa):
                    return float("nan")
                return math.copysign(float("inf"), fa)
            return fa / fb
        return a / b
    return _rdiv(a, b)


def e_floordiv(a, b):
    if _conc(a) and _conc(b):
        return a // b
    if _is_realish(a) or _is_realish(b):
        raise HarnessError("floor division of reals")
    bt_ = it(b)
    bz = z3.simplify(bt_ == 0)
    if not z3.is_false(bz):
        if E().branch(bz):
            raise ZeroDivisionError("integer division or modulo by zero")
    return mkint(_pyfloordiv(it(a), bt_))


def _pyfloordiv(a, b):
    # z3: a = b*q + r with 0 <= r < |b|.  Python: floor(a/b).
    q = a / b
    r = a % b
    return z3.If(b > 0, q, z3.If(r == 0, q, q - 1))


def _pymod(a, b):
    r = a % b
    return z3.If(b > 0, r, z3.If(r == 0, r, r + b))


def e_mod(a, b):
    if _conc(a) and _conc(b):
        return a % b
    if _is_realish(a) or _is_realish(b):
        raise HarnessError("modulo of reals")
    bt_ = it(b)
    bz = z3.simplify(bt_ == 0)
    if not z3.is_false(bz):
        if E().branch(bz):
            raise ZeroDivisionError("integer division or modulo by zero")
    return mkint(_pymod(it(a), bt_))


def e_pow(a, b):
    if _conc(a) and _conc(b):
        if isinstance(a, (float, Fraction)) or isinstance(b, (float, Fraction)):
            a = cfrac(a)
            if isinstance(a, float):
                return a ** float(b)
            if isinstance(b, Fraction) and b.denominator != 1:
                raise HarnessError("fractional power")
            return a ** int(b)
        return a ** b
    if not _conc(b):
        raise HarnessError("symbolic exponent")
    b = int(b)
    if b < 0 or b > 4:
        raise HarnessError("power %r" % b)
    r = 1
    for _ in range(b):
        r = e_mul(r, a)
    return r


def e_neg(a):
    if _conc(a):
        return -a
    return -a


def e_sqrt(a):
    """sqrt(x) = fresh y with y >= 0 and y*y = x (DESIGN.md C18); nan for x < 0."""
    if _conc(a):
        a = cfrac(a)
        if isinstance(a, float):
            if math.isnan(a):
                return a
            return a if a > 0 else float("nan")
        if a < 0:
            return float("nan")
        # exact root when rational square, else symbolic fresh
        n, d = a.numerator, a.denominator
        rn, rd = math.isqrt(n), math.isqrt(d)
        if rn * rn == n and rd * rd == d:
            return Fraction(rn, rd)
        if CONCRETE_SQRT[0]:
            return Fraction(math.sqrt(float(a)))
    t, n, i = rparts(a)
    eng = E()
    # one square-root symbol per argument term and path: equal arguments give the identical term
    cache = eng.__dict__.setdefault("_sqrt_cache", {})
    key = (z3.simplify(t).get_id(), eng.paths + eng.aborted)
    hit = cache.get(key)
    if hit is not None and z3.eq(hit[0], z3.simplify(t)):
        y = hit[1]
    else:
        y = z3.Real("sqrt!%d" % _fresh())
        cache[key] = (z3.simplify(t), y)
    neg = f_and(f_not(i), t < 0) if i is not False else (t < 0)
    eng.assume(y >= 0)
    eng.lemmas.append(z3.Implies(z3.Not(bt(f_or(neg, n, i))), y * y == t))
    # sqrt(-inf) = nan, sqrt(+inf) = inf
    nan = f_or(n, neg, f_and(i, t < 0))
    return mkreal(z3.If(bt(i), RV(1), y), nan, f_and(i, f_not(nan)))


_counter = [0]
CONCRETE_SQRT = [False]      # conformance runs only: float sqrt for concrete irrational roots


def _fresh():
    _counter[0] += 1
    return _counter[0]


def fresh_name(prefix):
    return "%s!%d" % (prefix, _fresh())


# ---------------------------------------------------------------- comparisons
def _cmp(a, b, iop, cop):
    if _conc(a) and _conc(b):
        if is_nan(a) or is_nan(b):
            return False
        return bool(cop(a, b))
    if _is_realish(a) or _is_realish(b):
        at, an, ai = rparts(a)
        bt_, bn, bi = rparts(b)
        if ai is False and bi is False:
            return mkbool(bt(f_and(f_not(an), f_not(bn), iop(at, bt_))))
        # order with infinities: compare (infsign, value) lexicographically
        big = lambda t, i: z3.If(bt(i), t, RV(0))
        key = z3.If(big(at, ai) != big(bt_, bi), iop(big(at, ai), big(bt_, bi)),
                    z3.If(z3.Or(bt(ai), bt(bi)), iop(RV(0), RV(0)), iop(at, bt_)))
        return mkbool(bt(f_and(f_not(an), f_not(bn), key)))
    return mkbool(iop(it(a), it(b)))


def e_lt(a, b):
    return _cmp(a, b, operator.lt, operator.lt)


def e_le(a, b):
    return _cmp(a, b, operator.le, operator.le)


def e_gt(a, b):
    return e_lt(b, a)


def e_ge(a, b):
    return e_le(b, a)


def e_eq(a, b):
    if a is None or b is None or isinstance(a, (str, tuple, list)) or isinstance(b, (str, tuple, list)):
        if _conc(a) and _conc(b):
            return a == b
        return False
    if isinstance(a, (bool, SBool)) and isinstance(b, (bool, SBool)):
        if _conc(a) and _conc(b):
            return a == b
        return mkbool(bt(a) == bt(b))
    try:
        r = _cmp(a, b, operator.eq, operator.eq)
    except HarnessError:
        return False
    if isinstance(r, SBool) and (isinstance(a, SKey) or isinstance(b, SKey)):
        # symbolic dictionary keys: equality is decided by the solver right away (section 2.4)
        return E().branch(r.t)
    return r


def e_ne(a, b):
    r = e_eq(a, b)
    if r is True or r is False:
        return not r
    return mkbool(z3.Not(r.t))


def e_and(a, b):
    if _conc(a) and _conc(b):
        if isinstance(a, bool) and isinstance(b, bool):
            return a and b
        return a & b
    return mkbool(z3.And(bt(a), bt(b)))


def e_or(a, b):
    if _conc(a) and _conc(b):
        if isinstance(a, bool) and isinstance(b, bool):
            return a or b
        return a | b
    return mkbool(z3.Or(bt(a), bt(b)))


def e_not(a):
    if _conc(a):
        return not a
    return mkbool(z3.Not(bt(a)))


def e_isnan(a):
    if _conc(a):
        return is_nan(a)
    if isinstance(a, SReal):
        return mkbool(bt(a.nan))
    return False


def e_isinf(a):
    if _conc(a):
        return is_inf(a)
    if isinstance(a, SReal):
        return mkbool(bt(f_and(a.inf, f_not(a.nan))))
    return False


def e_ite(c, a, b):
    """if-then-else over scalars of any kind (no fork)."""
    if c is True:
        return a
    if c is False:
        return b
    if a is b:
        return a
    ct = bt(c)
    if isinstance(a, (bool, SBool)) and isinstance(b, (bool, SBool)):
        return mkbool(z3.If(ct, bt(a), bt(b)))
    if _is_realish(a) or _is_realish(b):
        at, an, ai = rparts(a)
        bt_, bn, bi = rparts(b)
        return mkreal(z3.If(ct, at, bt_), f_ite(ct, an, bn), f_ite(ct, ai, bi),
                      _comb_i(a, b, lambda x, y: z3.If(ct, x, y)))
    return mkint(z3.If(ct, it(a), it(b)))


def e_abs(a):
    if _conc(a):
        return abs(a)
    return abs(a)


def e_min(a, b):
    return e_ite(e_le(a, b), a, b)


def e_max(a, b):
    return e_ite(e_le(a, b), b, a)


# ---------------------------------------------------------------- model evaluation
def ev(model, x):
    """Concrete Python value of a scalar under a z3 model (Fraction/int/bool/float nan|inf)."""
    if isinstance(x, SBool):
        return z3.is_true(model.eval(x.t, model_completion=True))
    if isinstance(x, SInt):
        return model.eval(x.t, model_completion=True).as_long()
    if isinstance(x, SReal):
        if x.nan is not False and (x.nan is True or z3.is_true(model.eval(bt(x.nan), model_completion=True))):
            return float("nan")
        v = model.eval(x.t, model_completion=True)
        if z3.is_algebraic_value(v):
            v = v.approx(30)
        fr = Fraction(v.numerator_as_long(), v.denominator_as_long())
        if x.inf is not False and (x.inf is True or z3.is_true(model.eval(bt(x.inf), model_completion=True))):
            return float("inf") if fr > 0 else float("-inf")
        return fr
    if isinstance(x, z3.ExprRef):
        v = model.eval(x, model_completion=True)
        if z3.is_bool(v):
            return z3.is_true(v)
        if z3.is_int_value(v):
            return v.as_long()
        if z3.is_bv_value(v):
            return v.as_long()
        if z3.is_algebraic_value(v):
            v = v.approx(30)
        return Fraction(v.numerator_as_long(), v.denominator_as_long())
    return x
