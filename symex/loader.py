"""Load catii's working-tree sources into a private namespace over the shim (section 2.1)."""
import ast
import hashlib
import os
import sys
import types

import numpy as rnp
import z3

from . import scalars as S
from . import snp
from . import snp_funcs
from .engine import E, HarnessError
from . import kernel_adapter      # imported here, while `numpy` still is NumPy (load_catii swaps sys.modules)
from .lower_pyx import compile_lowered
from .replay import src_dir
from .scalars import SInt, SBool, SReal, is_sym, it, mkint, mkbool, e_and, e_or, e_eq, e_lt, e_le, e_not, e_add
from .snp import ndarray, npscalar

REWRITES = ["len(e) -> _sx_len(e)", "type(e) -> _sx_type(e)", "float/int/bool(e) -> _sx_float/int/bool(e)",
            "a.dtype.type(e) -> _sx_dtype_type(a.dtype, e)"]


class _RW(ast.NodeTransformer):
    NAMES = ("len", "type", "float", "int", "bool")

    def visit_Call(self, n):
        self.generic_visit(n)
        if isinstance(n.func, ast.Name) and n.func.id in self.NAMES:
            n.func = ast.Name("_sx_" + n.func.id, ast.Load())
        elif (isinstance(n.func, ast.Attribute) and n.func.attr == "type" and isinstance(n.func.value, ast.Attribute)
              and n.func.value.attr == "dtype" and len(n.args) == 1 and not n.keywords):
            n = ast.copy_location(ast.Call(ast.Name("_sx_dtype_type", ast.Load()), [n.func.value, n.args[0]], []), n)
        return n


def sx_len(x):
    if isinstance(x, ndarray):
        if x.o.ndim == 0:
            raise TypeError("len() of unsized object")
        if x.n is not None:
            return x.n
        return len(x.o)
    return len(x)


def sx_type(*a):
    if len(a) != 1:
        return type(*a)
    x = a[0]
    if isinstance(x, S.SKey) or isinstance(x, SInt):
        return int
    if isinstance(x, SReal):
        return float
    if isinstance(x, SBool):
        return bool
    return type(x)


def sx_dtype_type(dt, x):
    """numpy scalar constructor dt.type(x) for a symbolic x: a shim scalar of that dtype."""
    if isinstance(x, ndarray) or is_sym(x):
        import numpy as rnp
        from . import snp
        d = rnp.dtype(dt)
        return snp.mkscalar(snp.cast(x, d), d)
    return dt.type(x)


def sx_float(x=0.0):
    if isinstance(x, ndarray):
        x = x.scalar_value()
    if isinstance(x, (SInt, SBool)):
        t, n, i = S.rparts(x)
        return SReal(t, n, i, S.ipart(x))
    if isinstance(x, SReal):
        return x
    return float(x)


def sx_int(x=0, *a):
    if a:
        return int(x, *a)
    if isinstance(x, ndarray):
        x = x.scalar_value()
        if not is_sym(x):
            return int(x)
    if isinstance(x, SInt):
        return x
    if isinstance(x, SBool):
        return x._i()
    if isinstance(x, SReal):
        return mkint(it(x))
    return int(x)


def sx_bool(x=False):
    if isinstance(x, SBool):
        return x
    return bool(x)


# ------------------------------------------------------------------ kernel summaries (section 2.6)
def _elems(a):
    return list(a.o)


def _member(a, t):
    r = False
    for j, x in enumerate(a.o):
        r = e_or(r, e_and(a.live(j), e_eq(x, t)))
    return r


def _is_conc_arr(a):
    return a.n is None and a.is_concrete()


def _mk(vals, n=None):
    o = rnp.empty(len(vals), dtype=object)
    for i, v in enumerate(vals):
        o[i] = v
    return ndarray(o, rnp.uint32, n)


def _check_operand(a, name):
    if not isinstance(a, ndarray):
        if a is None:
            raise HarnessError("summary kernel called with None")
        a = snp.asarray(a)
    if a.d != rnp.dtype(rnp.uint32):
        raise ValueError("Buffer dtype mismatch, expected 'uint32' but got %r" % a.d.name)
    if a.o.ndim != 1:
        raise ValueError("Buffer has wrong number of dimensions (expected 1, got %d)" % a.o.ndim)
    return a


def summary(op):
    """Result = fresh strictly increasing array constrained by the set-algebra specification
    (exactly the postcondition C08 discharges for the real kernel at these capacities)."""
    def run(a, b):
        a, b = _check_operand(a, "left"), _check_operand(b, "right")
        if _is_conc_arr(a) and _is_conc_arr(b):
            A, B = [int(x) for x in a.o], [int(x) for x in b.o]
            sa, sb = set(A), set(B)
            r = sorted(sa & sb if op == "and" else sa | sb if op == "or" else sa - sb)
            return _mk(r)
        eng = E()
        ca, cb = a.o.shape[0], b.o.shape[0]
        cap = min(ca, cb) if op == "and" else ca + cb if op == "or" else ca
        tag = S.fresh_name("k" + op)
        rs = [z3.Int("%s_%d" % (tag, j)) for j in range(cap)]
        k = z3.Int(tag + "_n")
        R = _mk([SInt(r) for r in rs], SInt(k))
        eng.assume(k >= 0, k <= cap)
        def want(t):
            ia, ib = _member(a, t), _member(b, t)
            return e_and(ia, ib) if op == "and" else e_or(ia, ib) if op == "or" else e_and(ia, e_not(ib))
        for j in range(cap):
            w = want(SInt(rs[j]))
            eng.assume(z3.Implies(j < k, S.bt(w)))
            if j:
                eng.assume(z3.Implies(j < k, rs[j - 1] < rs[j]))
        for src in (a, b) if op != "andnot" else (a,):
            for j, x in enumerate(src.o):
                w = e_and(src.live(j), want(x))
                if w is False:
                    continue
                eng.assume(z3.Implies(S.bt(w), S.bt(_member(R, x))))
        return R
    return run


SUMMARY_STUB = "intersection/union/difference kernels = set-algebra summaries (postcondition discharged by C08)"


class Catii:
    pass


def load_catii(kernels="summary", modules=("iindexes", "ffuncs", "xfuncs", "ccubes", "xcubes")):
    src = src_dir()
    saved = {k: sys.modules.get(k) for k in list(sys.modules) if k == "catii" or k.startswith("catii.")}
    saved["numpy"] = sys.modules.get("numpy")
    C = Catii()
    pkg = types.ModuleType("catii")
    pkg.__path__ = []
    helpers = {"_sx_len": sx_len, "_sx_type": sx_type, "_sx_float": sx_float, "_sx_int": sx_int, "_sx_bool": sx_bool,
               "_sx_dtype_type": sx_dtype_type}
    try:
        sys.modules["catii"] = pkg
        sys.modules["numpy"] = snp_funcs.NUMPY
        # set_operations: the lowered wrappers over the shim, merge kernels summarised or lowered
        path = os.path.join(src, "set_operations.pyx")
        code, lowered, types_, directives = compile_lowered(open(path).read(), path)
        so = types.ModuleType("catii.set_operations")
        from . import kernelrt as K
        so.__dict__.update({"__c_coerce": _snp_coerce, "__sx_len": sx_len, "__sx_min": K.sx_min,
                            "__sx_max": K.sx_max, "__sx_range": K.sx_range})
        from .lower_pyx import cimported_namespace
        so.__dict__.update(cimported_namespace())
        exec(code, so.__dict__)
        so.numpy = snp_funcs.NUMPY
        if kernels == "summary":
            # the summaries stand for kernels called as f(left, right); another calling convention (an extra buffer
            # argument, say) is outside what C08 discharges: refuse rather than guess its meaning
            import inspect
            nonstd = [kname for kname in ("set_intersect_merge_np", "set_union_merge_np", "set_difference_merge_np")
                      if so.__dict__.get(kname) is None or len(inspect.signature(so.__dict__[kname]).parameters) != 2]
            if nonstd:
                # fall back to the lowered real kernels over the shim arrays (lengths decided per path)
                kernel_adapter.install(so)
                C.kernel_mode = "lowered kernels (signature of %s changed: summaries do not apply)" % ", ".join(nonstd)
            else:
                so.set_intersect_merge_np = summary("and")
                so.set_union_merge_np = summary("or")
                so.set_difference_merge_np = summary("andnot")
                C.kernel_mode = "summaries"
        else:
            kernel_adapter.install(so)
            C.kernel_mode = "lowered kernels"
        sys.modules["catii.set_operations"] = so
        pkg.set_operations = so
        C.set_operations = so
        for name in modules:
            p = os.path.join(src, name + ".py")
            tree = _RW().visit(ast.parse(open(p).read()))
            ast.fix_missing_locations(tree)
            m = types.ModuleType("catii." + name)
            m.__package__ = "catii"
            m.__dict__.update(helpers)
            sys.modules["catii." + name] = m
            exec(compile(tree, p, "exec"), m.__dict__)
            setattr(pkg, name, m)
            setattr(C, name, m)
    finally:
        for k in [k for k in sys.modules if k == "catii" or k.startswith("catii.")]:
            del sys.modules[k]
        for k, v in saved.items():
            if v is not None:
                sys.modules[k] = v
    return C


def _snp_coerce(ty, value, func, name, lineno):
    """C coercion for the lowered wrappers when they run over shim arrays (summary mode):
    only scalars reach here because the merge kernels themselves are replaced."""
    return value


def function_info(relfile, names):
    """Evidence records (file, name, lines, sha256) for functions / methods by dotted name."""
    path = os.path.join(src_dir(), relfile)
    src = open(path).read()
    tree = ast.parse(src)
    found = {}
    for node in tree.body:
        if isinstance(node, ast.FunctionDef):
            found[node.name] = node
        elif isinstance(node, ast.ClassDef):
            found[node.name] = node
            for sub in node.body:
                if isinstance(sub, ast.FunctionDef):
                    found[node.name + "." + sub.name] = sub
    out = []
    for n in names:
        node = found.get(n)
        if node is None:
            out.append(dict(file="src/catii/" + relfile, name=n, lines="missing", sha256=""))
            continue
        seg = ast.get_source_segment(src, node)
        out.append(dict(file="src/catii/" + relfile, name=n, lines="%d-%d" % (node.lineno, node.end_lineno),
                        sha256=hashlib.sha256(seg.encode()).hexdigest()))
    return out
