"""Run the *lowered real kernels* on shim arrays (fallback when the set-algebra summaries do not apply, e.g. a kernel
whose calling convention changed).

Operand lengths are decided on the path (a fork per symbolic length), the elements stay symbolic and the kernel runs
under the C-level runtime of C08 (kernelrt), forking on its own comparisons.  Array arguments are passed by reference:
what the kernel writes into one of them is written back into the shim array, and a result that is a window of an
argument is returned as a view of that shim array (so that later writes through the buffer are seen, as in NumPy).
"""
import numpy as rnp

from . import kernelrt as K
from .engine import E, HarnessError
from .scalars import SInt, it, is_sym
from .snp import ndarray

KERNELS = ("set_intersect_merge_np", "set_union_merge_np", "set_difference_merge_np")
_ns = {}


def _kernel_ns():
    if "ns" not in _ns:
        from harness import kernels
        _ns["ns"] = kernels.load_kernels()
    return _ns["ns"]


def _fixed(a):
    """snp array with its length decided on this path."""
    if a.n is None:
        return a
    n = E().concretize(it(a.n)) if is_sym(a.n) else int(a.n)
    return ndarray(a.o[:n], a.d)


def _to_k(a):
    if a.d != rnp.dtype(rnp.uint32) or a.o.ndim != 1:
        raise ValueError("Buffer dtype mismatch / wrong number of dimensions for a uint32[:] argument")
    a = _fixed(a)
    return a, K.KArr(list(a.o), "uint32")


def _from_k(r, passed):
    """Kernel result -> shim value; `passed` = [(shim array, KArr)] of the array arguments."""
    if r is None or isinstance(r, (bool, int)):
        return r
    if isinstance(r, K.View):
        base, lo, n = r.arr, r.lo, r.n
    elif isinstance(r, K.KSlice):
        idx = range(*r.sl.indices(len(r.base.e)))
        if idx.step != 1:
            raise HarnessError("kernel adapter: strided result")
        base, lo, n = r.base, idx.start, len(idx)
    elif isinstance(r, K.KArr):
        base, lo, n = r, 0, len(r.e)
    else:
        raise HarnessError("kernel adapter: result of type %r" % type(r))
    while isinstance(base, K.KSlice):
        idx = range(*base.sl.indices(len(base.base.e)))
        lo += idx.start
        base = base.base
    for sa, ka in passed:
        if base is ka:
            return ndarray(sa.o[lo:lo + n], sa.d)      # a window of the caller's buffer: shares its storage
    o = rnp.empty(n, dtype=object)
    for i in range(n):
        o[i] = base.e[lo + i]
    return ndarray(o, rnp.uint32)


def adapter(name):
    def run(*args, **kw):
        K.State.strict = False
        K.State.oob_events = []
        fn = _kernel_ns()[name]
        passed = []

        def conv(x):
            if isinstance(x, ndarray):
                sa, ka = _to_k(x)
                passed.append((sa, ka))
                return ka
            return x
        a2 = [conv(x) for x in args]
        k2 = {k: conv(v) for k, v in kw.items()}
        r = fn(*a2, **k2)
        for sa, ka in passed:                      # write-through of whatever the kernel stored into its arguments
            for i, v in enumerate(ka.e):
                if sa.o[i] is not v:
                    sa.o[i] = v
        return _from_k(r, passed)
    run.__name__ = name
    return run


def install(so):
    for name in KERNELS:
        setattr(so, name, adapter(name))
