"""Decision-trail symbolic execution engine over z3 (DESIGN.md section 2.5).

The harness function is re-executed once per path.  ``SBool.__bool__`` (and
everything else that needs a concrete decision) calls :meth:`Engine.branch`,
which replays the recorded trail prefix and, at a fresh decision, asks the
solver which sides are feasible.  At the end of a path the harness calls
:meth:`Engine.assert_` with its property formula ``P``; the verdict is the
solver's answer to ``PC and not P``.

Engine control exceptions derive from BaseException so that catii's own
``except`` clauses (``except (ValueError, TypeError)``, ``except Exception`` in
harnesses) can never swallow them.
"""
import time

import z3


class Abort(BaseException):
    """The current path is infeasible (or was cut on purpose)."""


class Violation(BaseException):
    def __init__(self, kind, model, info=None):
        BaseException.__init__(self, kind)
        self.kind = kind
        self.model = model
        self.info = info


class Inconclusive(BaseException):
    """A budget (decisions, paths, wall clock) was exceeded."""


class HarnessError(BaseException):
    """Something the engine / shim does not model: never a property verdict."""


STAGE2 = ("simplify", "propagate-values", "solve-eqs", "simplify",
          "purify-arith", "qfnra-nlsat")


class Engine:
    def __init__(self, seed=0, query_timeout_ms=10000, stage2_timeout_ms=120000,
                 max_paths=200000, max_decisions=4000, wall_s=3600.0):
        self.solver = z3.Solver()
        self.solver.set("timeout", query_timeout_ms)
        self.solver.set("random_seed", seed % (2 ** 30))
        self.query_timeout_ms = query_timeout_ms
        self.stage2_timeout_ms = stage2_timeout_ms
        self.max_paths = max_paths
        self.max_decisions = max_decisions
        self.deadline = time.time() + wall_s
        self.trail = []      # [value, other_side_pending]
        self.pos = 0
        self.paths = 0           # completed paths (reached the end of the harness)
        self.aborted = 0         # paths cut as infeasible
        self.decisions = 0       # solver-decided branch decisions (new trail entries)
        self.queries = 0
        self.qtime = 0.0
        self.vcs = 0             # verification conditions discharged (unsat)
        self.vc_unknown = 0
        self.branch_unknown = 0
        self.stage2 = []         # (result, seconds)
        self.live_paths = 0      # paths whose PC was shown satisfiable at the end
        self.samples = []
        self.notes = {}
        self.on_path_end = None
        self._decided = {}
        self.vc_dump = None      # list collecting SMT-LIB2 texts of discharged VCs (second-solver cross-check)
        self.vc_dump_max = 0
        self.lemmas = []         # defining constraints used only when discharging VCs (e.g. y*y == x for sqrt):
                                 # branch feasibility ignores them (over-approximates the paths: sound)
        self.prefer = []         # optional constraints for nicer counterexample models (never affect verdicts)

    # -- solver access -------------------------------------------------------
    def check(self, *extra):
        t = time.time()
        r = self.solver.check(*extra)
        self.qtime += time.time() - t
        self.queries += 1
        return r

    def assume(self, *conds):
        for c in conds:
            if c is True:
                continue
            if c is False:
                raise Abort()
            self.solver.add(c)

    def branch(self, cond):
        if cond is True or cond is False:
            return cond
        cond = z3.simplify(cond)
        if z3.is_true(cond):
            return True
        if z3.is_false(cond):
            return False
        key = cond.get_id()
        hit = self._decided.get(key)
        if hit is not None:
            return hit[0]       # same condition already decided on this path (no new trail entry)
        v = self._branch(cond)
        self._decided[key] = (v, cond)
        return v

    def _branch(self, cond):
        if self.pos < len(self.trail):
            v = self.trail[self.pos][0]
        else:
            if time.time() > self.deadline:
                raise Inconclusive("wall budget")
            if len(self.trail) >= self.max_decisions:
                raise Inconclusive("decision budget")
            rt = self.check(cond)
            rf = self.check(z3.Not(cond))
            if rt == z3.unknown or rf == z3.unknown:
                # retry once with a longer budget (a loaded machine); a side that stays unknown is explored as if
                # feasible -- an over-approximation of the path set, so no feasible path is lost; counted for the evidence
                self.solver.set("timeout", self.query_timeout_ms * 4)
                try:
                    if rt == z3.unknown:
                        rt = self.check(cond)
                    if rf == z3.unknown:
                        rf = self.check(z3.Not(cond))
                finally:
                    self.solver.set("timeout", self.query_timeout_ms)
            if rt == z3.unknown or rf == z3.unknown:
                self.branch_unknown += 1
            can_t = rt != z3.unsat
            can_f = rf != z3.unsat
            if can_t and can_f:
                v = True
                self.trail.append([True, True])
            elif can_t:
                v = True
                self.trail.append([True, False])
            elif can_f:
                v = False
                self.trail.append([False, False])
            else:
                raise Abort()
            self.decisions += 1
        self.pos += 1
        self.solver.add(cond if v else z3.Not(cond))
        return v

    def concretize(self, term, lo=None, hi=None):
        """Fork over the feasible values of an Int/BitVec term."""
        v = z3.simplify(term)
        if z3.is_int_value(v):
            return v.as_long()
        if z3.is_bv_value(v):
            return v.as_signed_long()
        n = 0
        while True:
            r = self.check()
            if r != z3.sat:
                if r == z3.unknown:
                    self.branch_unknown += 1
                raise Abort()
            mv = self.solver.model().eval(term, model_completion=True)
            val = mv.as_long() if z3.is_int_value(mv) else mv.as_signed_long()
            if self.branch(term == val):
                return val
            n += 1
            if n > 4096:
                raise Inconclusive("concretize: too many values")

    # -- verification conditions ----------------------------------------------
    def assert_(self, cond, kind, info=None):
        """Discharge ``PC => cond``; raise Violation with a model otherwise."""
        if cond is True:
            self.vcs += 1
            return
        if cond is False:
            cond = z3.BoolVal(False)
        neg = z3.Not(cond)
        if self.lemmas:
            neg = z3.And(neg, *self.lemmas)
        r = self.check(neg)
        if r == z3.sat:
            if self.prefer:
                m = self._preferred_model([neg])
                if m is not None:
                    raise Violation(kind, m, info)
                if self.check(neg) != z3.sat:
                    raise HarnessError("solver flip-flopped on a violated VC")
            raise Violation(kind, self.solver.model(), info)
        if r == z3.unsat:
            self.vcs += 1
            if self.vc_dump is not None and len(self.vc_dump) < self.vc_dump_max:
                s2 = z3.Solver()
                s2.add(*self.solver.assertions())
                s2.add(neg)
                self.vc_dump.append(s2.to_smt2())
            return
        # stage 2: fresh solver, value propagation, then nlsat
        t0 = time.time()
        tac = z3.Then(*[z3.Tactic(n) for n in STAGE2])
        s2 = tac.solver()
        s2.set("timeout", self.stage2_timeout_ms)
        s2.add(*self.solver.assertions())
        s2.add(neg)
        try:
            r2 = s2.check()
        except z3.Z3Exception as ex:      # pragma: no cover
            r2 = z3.unknown
        self.stage2.append((str(r2), round(time.time() - t0, 3)))
        self.qtime += time.time() - t0
        self.queries += 1
        if r2 == z3.sat:
            raise Violation(kind, s2.model(), info)
        if r2 == z3.unsat:
            self.vcs += 1
            return
        self.vc_unknown += 1

    def _preferred_model(self, extra):
        """A model of PC + extra that satisfies as many of the readability preferences as a greedy pass keeps."""
        self.solver.push()
        try:
            self.solver.add(*extra)
            if self.check() != z3.sat:
                return None
            kept = 0
            for p in self.prefer:
                self.solver.push()
                self.solver.add(p)
                if self.check() == z3.sat:
                    kept += 1           # keep it (stay inside this push level)
                else:
                    self.solver.pop()
                    kept += 0
                    continue
            r = self.check()
            m = self.solver.model() if r == z3.sat else None
            return m
        finally:
            # unwind every level pushed above
            while self.solver.num_scopes() > self._base_scopes:
                self.solver.pop()

    def path_model(self):
        """Model of the current path condition (None if not shown sat); readable values preferred."""
        r = self.check(*self.lemmas)
        if r != z3.sat:
            return None
        if self.prefer:
            m = self._preferred_model(list(self.lemmas))
            if m is not None:
                return m
            if self.check(*self.lemmas) != z3.sat:
                return None
        return self.solver.model()

    # -- exploration -----------------------------------------------------------
    def explore(self, fn):
        """Run fn() over all feasible paths.  Violation / Inconclusive propagate."""
        while True:
            if self.paths + self.aborted >= self.max_paths:
                raise Inconclusive("path budget")
            self.solver.push()
            self._base_scopes = self.solver.num_scopes()
            self.pos = 0
            self._decided = {}
            self.prefer = []
            self.lemmas = []
            try:
                fn()
                self.paths += 1
                if self.on_path_end is not None:
                    self.on_path_end(self)
            except Abort:
                self.aborted += 1
            finally:
                self.solver.pop()
            while self.trail and not self.trail[-1][1]:
                self.trail.pop()
            if not self.trail:
                break
            v = self.trail.pop()[0]
            self.trail.append([not v, False])

    def stats(self):
        return dict(paths=self.paths, aborted=self.aborted, decisions=self.decisions,
                    queries=self.queries, solver_s=round(self.qtime, 3), vcs=self.vcs,
                    vc_unknown=self.vc_unknown, branch_unknown=self.branch_unknown,
                    stage2=len(self.stage2), live_paths=self.live_paths)


# The engine the scalars talk to (one per worker process, set by the driver).
class _Cur:
    E = None


CUR = _Cur()


def E():
    e = CUR.E
    if e is None:
        raise HarnessError("symbolic value used outside an exploration")
    return e
