"""Advanced indexing for the shim: boolean masks, integer-array gather / scatter, nonzero,
append -- all as non-forking ite encodings over the (concrete, small) extent, in NumPy's
last-write-wins order; symbolic lengths by compaction (DESIGN.md section 2.3)."""
import numpy as rnp
import z3

from . import scalars as S
from .engine import E, HarnessError
from .scalars import (SBool, SInt, is_sym, it, bt, mkint, mkbool, e_add, e_eq, e_lt, e_le, e_and, e_or, e_not, e_ite)
from . import snp
from .snp import ndarray, wrap_result, cast, _fill_obj, _f, EW_ITE, _cint, mkscalar, _touch


def _is_mask(c):
    return isinstance(c, ndarray) and c.d.kind == "b"


def _is_intarr(c):
    return isinstance(c, ndarray) and c.d.kind in "iu" and c.o.ndim >= 1


def _rest_basic(rest):
    return all(isinstance(c, (int, slice)) or c is None or c is Ellipsis for c in rest)


def _concrete_index(k):
    out = []
    for c in k:
        if isinstance(c, ndarray):
            if not c.is_concrete():
                return None
            out.append(rnp.asarray(c))
        elif isinstance(c, (SInt,)):
            return None
        else:
            out.append(c)
    return tuple(out)


def _ite_arr(c, x, y):
    """ite(c, x, y) where x, y are object arrays / scalars of the same shape."""
    if c is True:
        return x
    if c is False:
        return y
    if isinstance(x, rnp.ndarray) or isinstance(y, rnp.ndarray):
        return EW_ITE(c, x, y)
    return e_ite(c, x, y)


def _check_bounds(idx, extent, what="index"):
    """IndexError fork: every live index must lie in [0, extent) (negative wrap-around is not
    used by catii on row ids; a negative index is treated as out of range only if < -extent)."""
    conds = []
    for j in range(idx.o.shape[0]):
        v = idx.o[j]
        g = idx.live(j)
        if is_sym(v) or g is not True or is_sym(extent):
            ok = e_and(e_le(0, v), e_lt(v, extent))
            conds.append(e_or(e_not(g), ok) if g is not True else ok)
        else:
            if not (-int(extent) <= int(v) < int(extent)):
                raise IndexError("index %d is out of bounds for axis 0 with size %d" % (v, extent))
            if int(v) < 0:
                idx.o[j] = int(v) + int(extent)
    if conds:
        allok = True
        for c in conds:
            allok = e_and(allok, c)
        if not bool(allok):
            raise IndexError("index out of bounds (symbolic)")


def adv_get(a, k):
    _touch(a, "r")
    ck = _concrete_index(k)
    if ck is not None and a.n is None:
        # shape / index errors come from real numpy on the shadow
        r = a.o[ck]
        return wrap_result(r if isinstance(r, rnp.ndarray) else r, a.d) if isinstance(r, rnp.ndarray) else mkscalar(r, a.d)
    first, rest = k[0], k[1:]
    if _is_mask(first) and not rest:
        return _mask_get(a, first)
    if _is_mask(first) and _rest_basic(rest):
        sub = ndarray(a.fixed().o[(slice(None),) + tuple(rest)], a.d)
        return _mask_get(sub, first)
    if _is_intarr(first) and first.o.ndim == 1 and _rest_basic(rest):
        return _gather(a, first, rest)
    if isinstance(first, SInt) and _rest_basic(rest):
        return _select_one(a, first, rest)
    # index array in a later position etc.: make everything concrete (forks)
    k2 = []
    for c in k:
        if isinstance(c, ndarray):
            c = c.fixed()
            o2 = rnp.empty(c.o.shape, dtype=bool if c.d.kind == "b" else rnp.int64)
            of = o2.reshape(-1)
            for i, v in enumerate(c.o.reshape(-1)):
                of[i] = bool(v) if c.d.kind == "b" else _cint(v)
            k2.append(o2)
        elif isinstance(c, SInt):
            k2.append(_cint(c))
        else:
            k2.append(c)
    r = a.fixed().o[tuple(k2)]
    return wrap_result(r, a.d) if isinstance(r, rnp.ndarray) else mkscalar(r, a.d)


def _mask_get(a, m):
    """a[m]: m boolean over axis 0 (or the whole of a 1-D a)."""
    if m.o.ndim == 0:
        # 0-d mask: result has a new leading axis of length 0 or 1
        a = a.fixed()
        if bool(m.scalar_value()):
            return ndarray(a.o.reshape((1,) + a.o.shape), a.d)
        return ndarray(rnp.empty((0,) + a.o.shape, dtype=object), a.d)
    if m.o.ndim > a.o.ndim:
        raise IndexError("too many indices for array: array is %d-dimensional, but %d were indexed" % (a.o.ndim, m.o.ndim))
    if m.o.ndim != 1:
        if m.o.shape == a.o.shape and a.n is None and m.n is None:
            # full-shape mask: flatten both
            return _mask_get(ndarray(a.o.reshape(-1), a.d), ndarray(m.o.reshape(-1), m.d))
        raise HarnessError("boolean mask of shape %s on array %s" % (m.o.shape, a.o.shape))
    # lengths must agree (IndexError otherwise)
    la, lm = (a.n if a.n is not None else a.o.shape[0]), (m.n if m.n is not None else m.o.shape[0])
    same = e_eq(la, lm)
    if same is not True and not bool(same):
        raise IndexError("boolean index did not match indexed array along axis 0")
    cap = min(a.o.shape[0], m.o.shape[0])
    cnt = [0]
    sel = []
    for i in range(cap):
        g = e_and(e_and(a.live(i), m.live(i)), m.o[i])
        sel.append(g)
        cnt.append(e_add(cnt[-1], e_ite(g, 1, 0)))
    total = cnt[-1]
    if not is_sym(total):
        # fully decided selection
        idx = [i for i in range(cap) if sel[i] is True]
        return ndarray(a.o[idx] if idx else rnp.empty((0,) + a.o.shape[1:], dtype=object), a.d)
    out = rnp.empty((cap,) + a.o.shape[1:], dtype=object)
    for j in range(cap):
        if cap == 0:
            break
        v = a.o[cap - 1] if a.o.ndim > 1 else a.o[cap - 1]
        # ite chain from the back; default is irrelevant beyond the live length
        for i in reversed(range(cap)):
            if i < j:
                break           # the j-th selected element cannot sit before position j
            c = e_and(sel[i], e_eq(cnt[i], j))
            v = _ite_arr(c, a.o[i], v)
        out[j] = v
    return ndarray(out, a.d, total)


def _gather(a, idx, rest):
    src = a.o[(slice(None),) + tuple(rest)] if rest else a.o
    extent = a.n if a.n is not None else a.o.shape[0]
    _check_bounds(idx, extent)
    capi = idx.o.shape[0]
    capa = a.o.shape[0]
    sub_shape = src.shape[1:]
    out = rnp.empty((capi,) + sub_shape, dtype=object)
    for j in range(capi):
        kj = idx.o[j]
        if not is_sym(kj):
            out[j] = src[int(kj)] if capa else None
            continue
        if capa == 0:
            out[j] = None
            continue
        v = src[capa - 1]
        for i in reversed(range(capa - 1)):
            v = _ite_arr(e_eq(kj, i), src[i], v)
        out[j] = v
    return ndarray(out, a.d, idx.n)


def _select_one(a, i, rest):
    src = a.o[(slice(None),) + tuple(rest)] if rest else a.o
    extent = a.n if a.n is not None else a.o.shape[0]
    ok = e_and(e_le(0, i), e_lt(i, extent))
    if not bool(ok):
        raise IndexError("index out of bounds (symbolic)")
    capa = a.o.shape[0]
    v = src[capa - 1]
    for p in reversed(range(capa - 1)):
        v = _ite_arr(e_eq(i, p), src[p], v)
    return wrap_result(v, a.d) if isinstance(v, rnp.ndarray) else mkscalar(v, a.d)


def _vals(v, d):
    """(object array | scalar, is_array)"""
    if isinstance(v, ndarray):
        if v.o.ndim == 0:
            return cast(v.scalar_value(), d), False
        return snp._cast_arr(v.o, d), True
    if isinstance(v, (list, tuple, rnp.ndarray)):
        w = snp.asarray(v)
        if w.o.ndim == 0:
            return cast(w.scalar_value(), d), False
        return snp._cast_arr(w.o, d), True
    return cast(v, d), False


def adv_set(a, k, v):
    _touch(a, "w")
    a._need_fixed()
    # dtype / casting errors from real numpy on shadows where everything is concrete
    ck = _concrete_index(k)
    first, rest = k[0], k[1:]
    vo, isarr = _vals(v, a.d)
    if not isarr:
        # conversion errors of the scalar itself (NumPy raises them even when the mask selects nothing),
        # e.g. a Python float assigned into a datetime64 array
        sv = snp.shadow_scalar(v) if not isinstance(v, (rnp.ndarray, rnp.generic)) else v
        if not isinstance(sv, rnp.ndarray) or sv.ndim == 0:
            rnp.zeros((1,), a.d)[rnp.zeros((1,), bool)] = sv
    vlen = v.n if isinstance(v, ndarray) and v.n is not None else (vo.shape[0] if isarr else None)
    if _is_mask(first) and not rest:
        return _mask_set(a, first, vo, isarr, vlen)
    if _is_mask(first) and _rest_basic(rest):
        sub = ndarray(a.o[(slice(None),) + tuple(rest)], a.d)
        return _mask_set(sub, first, vo, isarr, vlen)
    if _is_intarr(first) and first.o.ndim == 1 and _rest_basic(rest):
        return _scatter(a, first, rest, vo, isarr, vlen)
    if isinstance(first, SInt) and _rest_basic(rest):
        src = a.o[(slice(None),) + tuple(rest)] if rest else a.o
        ok = e_and(e_le(0, first), e_lt(first, a.o.shape[0]))
        if not bool(ok):
            raise IndexError("index out of bounds (symbolic)")
        for p in range(a.o.shape[0]):
            src[p] = _ite_arr(e_eq(first, p), vo, src[p])
        return
    if ck is not None:
        sh = rnp.zeros(a.o.shape, a.d)
        sh[ck] = snp.shadow_scalar(v) if not isinstance(v, (rnp.ndarray, rnp.generic)) else v
        if isarr:
            a.o[ck] = vo
        else:
            tgt_idx = rnp.zeros(a.o.shape, bool)
            tgt_idx[ck] = True
            for p in zip(*rnp.nonzero(tgt_idx)):
                a.o[p] = vo
        return
    raise HarnessError("unsupported advanced assignment %r" % (k,))


def _mask_set(a, m, vo, isarr, vlen):
    if m.o.ndim == 0:
        c = m.scalar_value()
        if a.o.ndim == 0:
            a.o[()] = e_ite(c, vo if not isarr else vo.reshape(-1)[0], a.o[()])
        else:
            flat = a.o.reshape(-1)
            for p in range(flat.shape[0]):
                flat[p] = e_ite(c, vo if not isarr else vo.reshape(-1)[p if vo.size > 1 else 0], flat[p])
        return
    m = m.fixed() if m.n is not None else m
    if m.o.shape != a.o.shape[:m.o.ndim]:
        raise IndexError("boolean index did not match indexed array; dimension is %s but corresponding boolean dimension is %s" % (a.o.shape, m.o.shape))
    if not isarr:
        if m.o.ndim == a.o.ndim:
            for p in rnp.ndindex(a.o.shape):
                c = m.o[p]
                if c is True:
                    a.o[p] = vo
                elif c is not False:
                    a.o[p] = e_ite(c, vo, a.o[p])
        else:
            # mask over leading axes, broadcast over the rest
            for p in rnp.ndindex(m.o.shape):
                c = m.o[p]
                if c is False:
                    continue
                tgt = a.o[p]
                if isinstance(tgt, rnp.ndarray):
                    ft = tgt.reshape(-1)
                    if tgt.size and not rnp.shares_memory(ft, a.o):
                        for q in rnp.ndindex(tgt.shape):
                            tgt[q] = e_ite(c, vo, tgt[q])
                    else:
                        for q in range(ft.shape[0]):
                            ft[q] = e_ite(c, vo, ft[q])
                else:
                    a.o[p] = e_ite(c, vo, tgt)
        return
    # array value: the k-th True position receives v[k]
    if m.o.ndim != 1 or a.o.ndim != 1:
        if all(not is_sym(x) for x in m.o.reshape(-1)):
            rm = rnp.array([bool(x) for x in m.o.reshape(-1)]).reshape(m.o.shape)
            a.o[rm] = vo
            return
        raise HarnessError("array assignment through a symbolic n-d mask")
    cnt = 0
    total = 0
    for p in range(m.o.shape[0]):
        total = e_add(total, e_ite(m.o[p], 1, 0))
    same = e_eq(total, vlen)
    if vo.shape[0] != 1 or (vlen is not None and is_sym(vlen)):
        if same is not True and not bool(same):
            raise ValueError("NumPy boolean array indexing assignment cannot assign %s input values to the output values where the mask is true" % (vlen,))
    for p in range(a.o.shape[0]):
        val = a.o[p]
        c = m.o[p]
        if c is not False:
            new = vo[min(vo.shape[0] - 1, p)] if vo.shape[0] else val
            if is_sym(cnt):
                for j in reversed(range(min(p + 1, vo.shape[0]))):
                    new = e_ite(e_eq(cnt, j), vo[j], new)
            elif vo.shape[0]:
                new = vo[cnt] if cnt < vo.shape[0] else vo[-1]
            a.o[p] = e_ite(c, new, val)
        cnt = e_add(cnt, e_ite(c, 1, 0))


def _scatter(a, idx, rest, vo, isarr, vlen):
    src = a.o[(slice(None),) + tuple(rest)] if rest else a.o
    if src.size and not rnp.shares_memory(src, a.o):
        raise HarnessError("scatter target is not a view")
    _check_bounds(idx, a.o.shape[0])
    capa = a.o.shape[0]
    capi = idx.o.shape[0]
    if isarr:
        # shapes: v has one row per index
        li = idx.n if idx.n is not None else capi
        if vo.shape[0] != 1:
            same = e_eq(li, vlen if vlen is not None else vo.shape[0])
            if same is not True and not bool(same):
                raise ValueError("shape mismatch: value array could not be broadcast to indexing result")
    all_conc = all(not is_sym(idx.o[j]) for j in range(capi)) and idx.n is None
    if all_conc:
        for j in range(capi):
            p = int(idx.o[j])
            src[p] = (vo[j] if vo.shape[0] != 1 else vo[0]) if isarr else vo
        return
    for p in range(capa):
        val = src[p]
        for j in range(capi):
            kj = idx.o[j]
            g = idx.live(j)
            hit = e_and(g, e_eq(kj, p))
            if hit is False:
                continue
            new = (vo[j] if vo.shape[0] != 1 else vo[0]) if isarr else vo
            val = _ite_arr(hit, new, val)
        src[p] = val


def nonzero(a):
    _touch(a, "r")
    if a.o.ndim == 0:
        raise HarnessError("nonzero of a 0-d array")
    if a.o.ndim != 1:
        if a.is_concrete():
            return tuple(snp.asarray(x) for x in rnp.nonzero(rnp.asarray(a)))
        # symbolic n-d mask: decide every element on this path (a fork per undecided element); the index arrays
        # are then concrete, as NumPy returns them (row-major order)
        a._need_fixed()
        dec = rnp.zeros(a.o.shape, dtype=bool)
        for pos in rnp.ndindex(*a.o.shape):
            x = a.o[pos]
            dec[pos] = bool(mkbool(bt(x))) if is_sym(x) else (bool(x) or (isinstance(x, float) and x != x))
        return tuple(snp.asarray(x) for x in rnp.nonzero(dec))
    cap = a.o.shape[0]
    cnt = [0]
    sel = []
    for i in range(cap):
        x = a.o[i]
        nz = mkbool(bt(x)) if is_sym(x) else (bool(x) or (isinstance(x, float) and x != x))
        g = e_and(a.live(i), nz)
        sel.append(g)
        cnt.append(e_add(cnt[-1], e_ite(g, 1, 0)))
    total = cnt[-1]
    d = rnp.dtype(rnp.int64)
    if not is_sym(total):
        idx = [i for i in range(cap) if sel[i] is True]
        o = rnp.empty(len(idx), dtype=object)
        for j, i in enumerate(idx):
            o[j] = i
        return (ndarray(o, d),)
    out = rnp.empty(cap, dtype=object)
    for j in range(cap):
        v = cap - 1
        for i in reversed(range(j, cap)):
            v = e_ite(e_and(sel[i], e_eq(cnt[i], j)), i, v)
        out[j] = v
    return (ndarray(out, d, total),)


def append1d(a, b, d):
    """numpy.append / concatenate of two 1-D arrays, either possibly of symbolic length."""
    if a.n is None and b.n is None:
        o = rnp.empty(a.o.shape[0] + b.o.shape[0], dtype=object)
        o[:a.o.shape[0]] = a.o
        o[a.o.shape[0]:] = b.o
        return ndarray(snp._cast_arr(o, d), d)
    ca, cb = a.o.shape[0], b.o.shape[0]
    na = a.n if a.n is not None else ca
    nb = b.n if b.n is not None else cb
    out = rnp.empty(ca + cb, dtype=object)
    for j in range(ca + cb):
        v = 0
        for i in reversed(range(cb)):
            if j - i > ca or j - i < 0:
                continue
            v = e_ite(e_eq(e_add(na, i), j), b.o[i], v)
        if j < ca:
            v = e_ite(e_lt(j, na), a.o[j], v)
        out[j] = v
    return ndarray(snp._cast_arr(out, d), d, e_add(na, nb))
