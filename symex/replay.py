"""Scratch builds of the working tree and concrete replays (DESIGN.md section 2.7).

A Build copies CATII_SRC (*.py and the .pyx) into a mkdtemp directory outside
/repo and /verif, cythonises and compiles the extension there and runs
/verif/oracle/runner.py under /venv/bin/python against it.  The directory is
removed when the Build is closed.
"""
import json
import os
import shutil
import subprocess
import sys
import tempfile

VENV_PY = "/venv/bin/python"
HERE = os.path.dirname(os.path.dirname(os.path.abspath(__file__)))

SETUP = r'''
import numpy
from setuptools import Extension, setup
from Cython.Build import cythonize
setup(name="catii_scratch",
      ext_modules=cythonize([Extension("catii.set_operations", ["catii/set_operations.pyx"],
                                       include_dirs=[numpy.get_include()],
                                       define_macros=[("NPY_NO_DEPRECATED_API", "NPY_1_7_API_VERSION")],
                                       extra_compile_args=["-O1"])],
                            quiet=True),
      script_args=["-q", "build_ext", "--inplace"])
'''


def src_dir():
    return os.environ.get("CATII_SRC", "/repo/src/catii")


class BuildError(Exception):
    pass


class Build:
    """A compiled scratch copy of the current working tree."""

    def __init__(self, boundscheck=False):
        self.boundscheck = boundscheck
        self.dir = None

    def __enter__(self):
        self.build()
        return self

    def __exit__(self, *a):
        self.close()
        return False

    def build(self):
        self.dir = tempfile.mkdtemp(prefix="catii-verif-")
        pkg = os.path.join(self.dir, "catii")
        os.mkdir(pkg)
        src = src_dir()
        for fn in os.listdir(src):
            if fn.endswith(".py") or fn.endswith(".pyx"):
                shutil.copy(os.path.join(src, fn), os.path.join(pkg, fn))
        if self.boundscheck:
            p = os.path.join(pkg, "set_operations.pyx")
            s = open(p).read()
            s = s.replace("boundscheck(False)", "boundscheck(True)")
            open(p, "w").write(s)
        open(os.path.join(self.dir, "setup_scratch.py"), "w").write(SETUP)
        env = dict(os.environ)
        env.pop("PYTHONPATH", None)
        r = subprocess.run([VENV_PY, "setup_scratch.py"], cwd=self.dir, env=env,
                           stdout=subprocess.PIPE, stderr=subprocess.STDOUT, text=True)
        if r.returncode != 0:
            out = r.stdout[-3000:]
            self.close()
            raise BuildError("scratch build failed:\n" + out)
        return self

    def close(self):
        if self.dir and os.path.isdir(self.dir):
            shutil.rmtree(self.dir, ignore_errors=True)
        self.dir = None

    def run_cases(self, cases, timeout=900):
        """Run concrete cases through oracle/runner.py; returns a list of result dicts."""
        if not cases:
            return []
        fd, path = tempfile.mkstemp(prefix="cases-", suffix=".json", dir=self.dir)
        with os.fdopen(fd, "w") as f:
            json.dump(cases, f)
        env = dict(os.environ)
        env["PYTHONPATH"] = self.dir + os.pathsep + HERE
        env["PYTHONWARNINGS"] = "ignore"
        r = subprocess.run([VENV_PY, os.path.join(HERE, "oracle", "runner.py"), path],
                           cwd=self.dir, env=env, stdout=subprocess.PIPE, stderr=subprocess.PIPE,
                           text=True, timeout=timeout)
        if r.returncode < 0 and len(cases) > 1:
            # the real code crashed the interpreter (signal): isolate the crashing case(s)
            return [self.run_cases([c], timeout=timeout)[0] for c in cases]
        if r.returncode < 0:
            # a hard crash of the real build on this input: reported as a (reproduced) violation of any property
            # that promises a result, never swallowed
            return [{"violates": True, "crash": "the real build died with signal %d on this input" % -r.returncode,
                     "stderr": r.stderr[-300:]}]
        if r.returncode != 0:
            raise BuildError("oracle runner failed (%d):\n%s\n%s" % (r.returncode, r.stdout[-2000:], r.stderr[-3000:]))
        for line in reversed(r.stdout.splitlines()):
            if line.startswith("RESULTS "):
                return json.loads(line[len("RESULTS "):])
        raise BuildError("oracle runner printed no results:\n" + r.stdout[-2000:] + r.stderr[-2000:])
