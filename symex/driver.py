"""Check driver: configurations -> worker pool -> replay -> evidence -> exit code.

Exit codes: 0 held (possibly with KNOWN-FINDING lines); 1 replayed violation not
listed as a finding; 2 harness error / engine mismatch / inconclusive quick run.
"""
import hashlib
import importlib
import json
import multiprocessing
import os
import sys
import threading
import time
import traceback
import warnings

from . import engine as engine_mod
from .engine import Engine, Violation, Inconclusive, HarnessError, CUR
from . import replay as replay_mod

HERE = os.path.dirname(os.path.dirname(os.path.abspath(__file__)))
NPROC = int(os.environ.get("VERIF_NPROC", "16"))


def load_findings():
    p = os.path.join(HERE, "known_findings.json")
    if not os.path.exists(p):
        return []
    return json.load(open(p)).get("findings", [])


def active_findings(pid):
    out = []
    for f in load_findings():
        if f.get("status") == "finding" and (f.get("property") == pid or pid in f.get("also", [])):
            out.append(f)
    return out


def source_hashes():
    src = replay_mod.src_dir()
    out = {}
    for fn in sorted(os.listdir(src)):
        if fn.endswith(".py") or fn.endswith(".pyx"):
            out[fn] = hashlib.sha256(open(os.path.join(src, fn), "rb").read()).hexdigest()
    return out


def _worker(args):
    pid, cfg, tier, seed, excl = args
    t0 = time.time()
    sys.setrecursionlimit(20000)
    warnings.filterwarnings("ignore")
    res = dict(cfg=cfg, stats={}, violation=None, samples=[], inconclusive=None, error=None,
               path_samples=[], notes={}, vc_dump=[])
    try:
        H = importlib.import_module("harness." + pid)
        eng = Engine(seed=seed, **getattr(H, "ENGINE_OPTS", {}).get(tier, {}))
        CUR.E = eng
        nd = getattr(H, "DUMP_VCS", {}).get(tier, 0)
        if nd:
            eng.vc_dump, eng.vc_dump_max = [], nd
        ctx = Ctx(eng, cfg, tier, seed, excl)
        entered = set()
        srcp = os.path.realpath(replay_mod.src_dir()) + os.sep

        def prof(frame, event, arg):
            # which catii functions the symbolic run enters (first two paths of the configuration)
            if event == "call":
                fn = frame.f_code.co_filename
                if fn.startswith(srcp):
                    entered.add(fn[len(srcp):] + ":" + frame.f_code.co_qualname)
                if eng.paths + eng.aborted >= 2:
                    sys.setprofile(None)
        sys.setprofile(prof)
        try:
            H.explore(cfg, eng, ctx)
        except Violation as v:
            case = ctx.build_case(v.model, v)
            res["violation"] = dict(kind=v.kind, case=case)
        except Inconclusive as ex:
            res["inconclusive"] = str(ex)
        sys.setprofile(None)
        res["entered"] = sorted(entered)
        res["stats"] = eng.stats()
        res["samples"] = ctx.samples
        res["path_samples"] = ctx.path_samples
        res["notes"] = ctx.notes
        res["vc_dump"] = eng.vc_dump or []
        if eng.vc_unknown:
            # an undecided VC is never "held"; an undecided *branch* was explored on both sides (sound) and is only counted
            res["inconclusive"] = (res["inconclusive"] or "") + " unknown vcs=%d branches=%d" % (eng.vc_unknown, eng.branch_unknown)
    except BaseException as ex:      # harness error: never a verdict
        res["error"] = "%s: %s\n%s" % (type(ex).__name__, ex, traceback.format_exc()[-3000:])
    finally:
        sys.setprofile(None)
        CUR.E = None
    res["wall_s"] = round(time.time() - t0, 3)
    return res


class Ctx:
    """Per-configuration context handed to the harness."""

    def __init__(self, eng, cfg, tier, seed, excl):
        self.eng = eng
        self.cfg = cfg
        self.tier = tier
        self.seed = seed
        self.excl = excl            # ids of known findings whose region is excluded
        self.samples = []           # concrete cases for cross-validation on the real build
        self.path_samples = []      # for evidence
        self.notes = {}
        self.case_builder = None    # set by the harness on every path: model -> case dict
        self.max_samples = 4 if tier == "quick" else 12

    def build_case(self, model, v=None):
        if self.case_builder is None:
            raise HarnessError("violation without a case builder: %s" % (v.kind if v else ""))
        case = self.case_builder(model)
        if case is None:
            raise HarnessError("counterexample model is not representable as a concrete input: %s" % (v.kind if v else ""))
        if v is not None:
            case["violation_kind"] = v.kind
        case["cfg"] = self.cfg
        return case

    def end_path(self):
        """Vacuity guard + cross-validation sample; called by harnesses at the end of a path."""
        eng = self.eng
        m = eng.path_model()
        if m is None:
            return
        eng.live_paths += 1
        if self.case_builder is not None and len(self.samples) < self.max_samples:
            # spread the samples: take early paths, then every 2^k-th
            n = eng.live_paths
            if n <= 2 or (n & (n - 1)) == 0:
                case = self.case_builder(m)
                if case is None:        # model not representable as a concrete input (skipped, not validated)
                    return
                case["cfg"] = self.cfg
                self.samples.append(case)
                if len(self.path_samples) < 2:
                    pc = [str(a) for a in eng.solver.assertions()][-6:]
                    self.path_samples.append(dict(config=self.cfg, path_condition_tail=[p[:200] for p in pc],
                                                  case={k: case[k] for k in case if k not in ("cfg",)}))


def case_digest(case):
    return hashlib.sha256(json.dumps(case, sort_keys=True, default=str).encode()).hexdigest()[:16]


def write_replay(pid, case):
    d = os.path.join(HERE, "replays", pid)
    os.makedirs(d, exist_ok=True)
    p = os.path.join(d, case_digest(case) + ".json")
    json.dump(case, open(p, "w"), indent=1, sort_keys=True, default=str)
    return p


class BuildThread(threading.Thread):
    def __init__(self, boundscheck=False):
        threading.Thread.__init__(self)
        self.b = replay_mod.Build(boundscheck=boundscheck)
        self.err = None
        self.daemon = True

    def run(self):
        try:
            self.b.build()
        except BaseException as ex:
            self.err = ex

    def get(self):
        self.join()
        if self.err is not None:
            raise self.err
        return self.b


FAILFAST_AFTER = 4


def run_check(pid, tier, seed):
    t0 = time.time()
    H = importlib.import_module("harness." + pid)
    findings = active_findings(pid)
    excl = [f["id"] for f in findings]
    cfgs = H.configs(tier, seed)
    strict_build = getattr(H, "BOUNDSCHECK_BUILD", False)
    bt = BuildThread(boundscheck=strict_build)
    bt.start()
    results = []
    errors = []
    work = [(pid, c, tier, seed, excl) for c in cfgs]
    nproc = max(1, min(NPROC, len(work)))
    # workers come from a fork server, not from this (multi-threaded) process: a worker forked here while
    # another thread is inside subprocess.Popen inherits the child's error pipe and, never exec'ing, keeps
    # Popen waiting for as long as the worker lives (observed as a rare deadlock of the whole check)
    ctx = multiprocessing.get_context("forkserver")
    ctx.set_forkserver_preload(["symex.driver", "harness." + pid])
    stopped_early = None
    confirmed = {}      # id(result) -> replay outcome obtained by the fail-fast probe
    with ctx.Pool(nproc, maxtasksperchild=getattr(H, "TASKS_PER_CHILD", 8)) as pool:
        nviol = 0
        next_probe = FAILFAST_AFTER
        # watchdog: a configuration answers within its own wall budget; a longer silence means a worker was
        # lost (killed by the kernel, crashed inside the solver) -- a harness error, never a verdict
        silence = getattr(H, "ENGINE_OPTS", {}).get(tier, {}).get("wall_s", 3600.0) + 900
        results_it = pool.imap_unordered(_worker, work, chunksize=1)
        while len(results) < len(work):
            try:
                r = results_it.next(timeout=silence)
            except StopIteration:
                break
            except multiprocessing.TimeoutError:
                print("HARNESS-ERROR: no configuration finished within %d s (%d of %d done): a worker was lost" % (silence, len(results), len(work)))
                pool.terminate()
                try:
                    bt.get().close()
                except BaseException:
                    pass
                return 2
            results.append(r)
            if r["error"]:
                errors.append(r)
            if r["violation"]:
                nviol += 1
                # fail fast: once several candidates exist, replay them now; a reproduced violation already
                # decides the exit code, so the rest of the exploration is abandoned (and reported as such)
                if nviol >= next_probe and len(results) < len(work):
                    next_probe = nviol + FAILFAST_AFTER
                    try:
                        b = bt.get()
                        crs = [x for x in results if x["violation"]][-FAILFAST_AFTER:]
                        outs = b.run_cases([x["violation"]["case"] for x in crs])
                        for x, o in zip(crs, outs):
                            if o.get("violates"):
                                confirmed[id(x)] = o
                        if confirmed:
                            stopped_early = len(work) - len(results)
                            pool.terminate()
                            break
                    except Exception:
                        pass
    if stopped_early:
        print("NOTE: exploration stopped after reproduced violations; %d of %d configurations not explored" % (stopped_early, len(work)))
    exit_code = 0
    out_lines = []
    try:
        build = bt.get()
    except BaseException as ex:
        print("HARNESS-ERROR: scratch build failed: %s" % ex)
        return 2
    try:
        # --- replay candidate violations on the real build
        viol_all = [r for r in results if r["violation"]]
        # replay at most MAX_REPLAYS_PER_KIND candidates of each kind (the rest are the same defect seen from other configurations)
        per_kind = {}
        viol = []
        # candidates the fail-fast probe already reproduced come first (and are not replayed again)
        for r in sorted(viol_all, key=lambda r: id(r) not in confirmed):
            k = r["violation"]["kind"].split("[")[0][:60]
            per_kind[k] = per_kind.get(k, 0) + 1
            if per_kind[k] <= getattr(H, "MAX_REPLAYS_PER_KIND", 8) or id(r) in confirmed:
                viol.append(r)
        viol_cases = [r["violation"]["case"] for r in viol]
        real_violations = []
        mismatches = []
        if viol_cases:
            todo = [r for r in viol if id(r) not in confirmed]
            fresh = dict(zip([id(r) for r in todo], build.run_cases([r["violation"]["case"] for r in todo])))
            rr = [confirmed.get(id(r)) or fresh[id(r)] for r in viol]
            for r, out in zip(viol, rr):
                case = r["violation"]["case"]
                if out.get("violates"):
                    case["real_result"] = out
                    real_violations.append((r, case))
                else:
                    mismatches.append((r, out))
        # --- cross-validate sampled paths
        samples = [c for r in results for c in r["samples"]]
        validated = 0
        sample_fail = []
        if samples:
            rr = build.run_cases(samples)
            for c, out in zip(samples, rr):
                if out.get("violates") or out.get("pred_ok") is False:
                    sample_fail.append((c, out))
                else:
                    validated += 1
        # --- known findings: replay the witness
        kf_lines = []
        for f in findings:
            w = dict(f["witness"])
            out = build.run_cases([w])[0]
            if out.get("violates"):
                kf_lines.append("KNOWN-FINDING: property=%s %s [%s]" % (pid, f["text"], f["id"]))
            else:
                print("NOTE: known finding %s no longer reproduces with its witness" % f["id"])
    finally:
        build.close()

    for l in kf_lines:
        print(l)
    for r, case in real_violations:
        p = write_replay(pid, case)
        print("VIOLATION property=%s replay=%s" % (pid, p))
        print("  kind: %s  cfg: %s" % (r["violation"]["kind"], json.dumps(r["cfg"], default=str)))
        print("  real build: %s" % json.dumps(case["real_result"], default=str)[:600])
        exit_code = 1
    benign = [(r, out) for r, out in mismatches
              if getattr(H, "UNREPRODUCED_IS_BENIGN", False) or r["violation"]["case"].get("unobservable_ok")]
    mismatches = [(r, out) for r, out in mismatches if not any(r is b for b, _ in benign)]
    for r, out in benign:
        print("NOTE: %s -- not observable on the real build (%s): not a violation" % (r["violation"]["kind"][:160], out.get("note", "")))
    for r, out in mismatches:
        print("ENGINE-MISMATCH: symbolic violation (%s) did not reproduce on the real build: cfg=%s case=%s real=%s" % (
            r["violation"]["kind"], json.dumps(r["cfg"], default=str), json.dumps(r["violation"]["case"], default=str)[:800], json.dumps(out, default=str)[:400]))
        if exit_code == 0:
            exit_code = 2
    for c, out in sample_fail:
        # the symbolic run said "holds" on this path, the real build disagrees with the prediction / oracle
        print("ENGINE-MISMATCH: cross-validation sample disagrees: case=%s real=%s" % (json.dumps(c, default=str)[:800], json.dumps(out, default=str)[:400]))
        if exit_code == 0:
            exit_code = 2
    for r in errors:
        print("HARNESS-ERROR: cfg=%s\n%s" % (json.dumps(r["cfg"], default=str), r["error"]))
        if exit_code == 0:
            exit_code = 2
    inconc = [r for r in results if r["inconclusive"] and not r["error"]]
    for r in inconc:
        print("INCONCLUSIVE: cfg=%s reason=%s" % (json.dumps(r["cfg"], default=str), r["inconclusive"]))
    if inconc and tier == "quick" and exit_code == 0:
        exit_code = 2
    dead = [r for r in results if not r["error"] and not r["violation"] and not r["inconclusive"]
            and r["stats"].get("live_paths", 0) == 0 and not r["notes"].get("vacuous_ok")]
    for r in dead:
        print("VACUOUS: cfg=%s has no satisfiable path reaching the assertion" % json.dumps(r["cfg"], default=str))
        if exit_code == 0:
            exit_code = 2

    # --- second engine / second solver (section 2.8 item 4)
    cross = {}
    if hasattr(H, "cross_check"):
        try:
            dumps = [t for r in results for t in r.get("vc_dump", [])]
            cross = H.cross_check(tier, bool(real_violations), dumps)
        except Exception as ex:
            cross = {"error": "%s: %s" % (type(ex).__name__, ex), "disagree": True}
        if cross.get("disagree"):
            print("ENGINE-DISAGREEMENT: %s" % json.dumps(cross, default=str)[:600])
            if exit_code == 0:
                exit_code = 2

    # --- evidence
    tot = lambda k: sum(r["stats"].get(k, 0) for r in results)
    path_samples = [s for r in results for s in r["path_samples"]][:6]
    if not path_samples:
        path_samples = [dict(config=r["cfg"], stats=r["stats"]) for r in results[:3]]
    notes = {}
    for r in results:
        for k, v in r["notes"].items():
            if isinstance(v, (int, float)) and not isinstance(v, bool):
                notes[k] = notes.get(k, 0) + v
            elif isinstance(v, list):
                notes.setdefault(k, [])
                for x in v:
                    if x not in notes[k]:
                        notes[k].append(x)
            else:
                notes[k] = v
    funcs = []
    try:
        funcs = H.functions()
    except Exception:
        pass
    # --- anchored functions actually entered by the symbolic run (vacuity guard, reported only)
    entered = set(x for r in results for x in r.get("entered", []))
    anchors = {"entered": [], "not_entered": []}
    try:
        adb = json.load(open(os.path.join(HERE, "anchors.json")))["anchors"].get(pid, [])
    except Exception:
        adb = []
    stubs_txt = " ".join(getattr(H, "STUBS", []))
    for a in adb:
        key = os.path.basename(a["file"]) + ":" + a["function"]
        if key in entered:
            anchors["entered"].append(key)
        else:
            why = "not entered on the sampled paths"
            if a["file"].endswith(".pyx") and "summar" in stubs_txt:
                why = "kernel replaced by its set-algebra summary (postcondition discharged by C08)"
            anchors["not_entered"].append({"function": key, "reason": why})
    for x in anchors["not_entered"]:
        if x["reason"].startswith("not entered"):
            print("NOTE: anchored function %s was %s" % (x["function"], x["reason"]))
    ev = {
        "property_id": pid, "tier": tier, "seed": seed,
        "level": getattr(H, "LEVEL", "model_checking"),
        "coverage": {
            "states": max(1, tot("paths")), "transitions": max(1, tot("decisions")),
            "traces_validated_against_impl": validated,
            "samples": path_samples,
            "explanation": getattr(H, "EXPLANATION", "bounded symbolic execution of the real source; every path within the bounds, every VC decided by z3"),
            "functions": funcs,
            "anchored_functions": anchors,
            "source_sha256": source_hashes(),
            "rewrites": getattr(H, "REWRITES", []),
            "stubs": getattr(H, "STUBS", []),
            "bounds": H.bounds(tier) if hasattr(H, "bounds") else {},
            "configs": {"explored": len([r for r in results if not r["error"] and not r["inconclusive"]]),
                        "inconclusive": len(inconc), "errors": len(errors), "total": len(cfgs),
                        "list": [r["cfg"] for r in results][:400]},
            "vcs": {"discharged": tot("vcs"), "violated": len(viol_all), "replayed": len(viol), "unknown": tot("vc_unknown")},
            "paths": {"completed": tot("paths"), "infeasible_cut": tot("aborted"), "live": tot("live_paths")},
            "solver": {"name": "z3 " + __import__("z3").get_version_string(), "queries": tot("queries"),
                       "wall_s": round(tot("solver_s"), 2), "stage2_queries": tot("stage2"),
                       "branches_undecided_explored_both_ways": tot("branch_unknown")},
            "notes": notes,
            "known_findings_excluded": excl,
            "cross_checks": cross,
            "engine_mismatches": len(mismatches) + len(sample_fail),
            "exhaustive": (not inconc and not errors and tot("vc_unknown") == 0 and not stopped_early),
            "stopped_early_unexplored_configs": stopped_early or 0,
        },
        "assumptions": getattr(H, "ASSUMPTIONS", []),
        "wall_s": round(time.time() - t0, 2),
        "violations": len(real_violations),
    }
    os.makedirs(os.path.join(HERE, "evidence"), exist_ok=True)
    json.dump(ev, open(os.path.join(HERE, "evidence", pid + ".json"), "w"), indent=1, default=str)
    print("%s %s: configs=%d paths=%d decisions=%d vcs=%d unknown=%d validated=%d violations=%d wall=%.1fs exit=%d" % (
        pid, tier, len(cfgs), tot("paths"), tot("decisions"), tot("vcs"), tot("vc_unknown"), validated,
        len(real_violations), time.time() - t0, exit_code))
    return exit_code


def run_replay(pid, path):
    case = json.load(open(path))
    H = importlib.import_module("harness." + pid)
    with replay_mod.Build(boundscheck=getattr(H, "BOUNDSCHECK_BUILD", False)) as b:
        out = b.run_cases([case])[0]
    print(json.dumps(out, indent=1, default=str))
    if out.get("violates"):
        print("VIOLATION property=%s replay=%s" % (pid, path))
        return 1
    return 0
