"""Module-level functions of the NumPy shim and the module object catii sees as ``numpy``."""
import math
import operator
from fractions import Fraction

import numpy as rnp
import z3

from . import scalars as S
from . import snp
from .engine import E, HarnessError
from .scalars import (SBool, SInt, SReal, is_sym, it, bt, mkint, mkbool, e_add, e_sub, e_mul, e_div, e_lt, e_le,
                      e_eq, e_ne, e_and, e_or, e_not, e_ite, e_isnan)
from .snp import (ndarray, npscalar, asarray, array, wrap_result, cast, _fill_obj, _f, _cint, mkscalar, reduce_,
                  binop, _cast_arr, _touch)
from .snp_index import nonzero as _nonzero, append1d

ATOL = Fraction(1, 10 ** 8)


def where(cond, x=None, y=None):
    cond = asarray(cond)
    if x is None and y is None:
        return _nonzero(cond)
    sh = rnp.where(cond.shadow(), snp._shadow_operand(x), snp._shadow_operand(y))
    res = snp.EW_ITE(cond.o, snp._to_objarr(x), snp._to_objarr(y))
    return wrap_result(_cast_arr(res, sh.dtype), sh.dtype)


def nonzero(a):
    return _nonzero(asarray(a))


def isnan(x):
    if isinstance(x, (ndarray, rnp.ndarray, list, tuple)):
        a = asarray(x)
        rnp.isnan(a.shadow())       # TypeError for unsupported dtypes, like numpy
        return wrap_result(snp.EW_ISNAN(a.o), bool, a.n)
    if is_sym(x):
        r = e_isnan(x)
        return mkscalar(r, bool)
    if isinstance(x, Fraction):
        return rnp.False_
    return rnp.isnan(x)


def isinf(x):
    a = asarray(x)
    return wrap_result(_f(S.e_isinf, 1, 1)(a.o), bool, a.n)


def isfinite(x):
    a = asarray(x)
    return wrap_result(_f(lambda v: e_not(e_or(e_isnan(v), S.e_isinf(v))), 1, 1)(a.o), bool, a.n)


def isclose(a, b, rtol=1e-05, atol=1e-08, equal_nan=False):
    a = asarray(a)
    if isinstance(b, ndarray) or is_sym(b) or b != 0 or equal_nan:
        if a.is_concrete() and not is_sym(b) and (not isinstance(b, ndarray) or b.is_concrete()):
            return asarray(rnp.isclose(rnp.asarray(a), rnp.asarray(b) if isinstance(b, ndarray) else b, rtol, atol, equal_nan))
        raise HarnessError("isclose against a non-zero / symbolic reference")
    at = Fraction(atol)

    def f(v):
        # |v - 0| <= atol + rtol*|0|, false for nan and inf
        ok = e_and(e_le(v, at), e_le(-at, v))
        ok = e_and(ok, e_not(e_or(e_isnan(v), S.e_isinf(v))))
        return ok
    return wrap_result(_f(f, 1, 1)(a.o), bool, a.n)


def allclose(a, b, rtol=1e-05, atol=1e-08, equal_nan=False):
    return bool(rnp.allclose(rnp.asarray(asarray(a)), rnp.asarray(asarray(b)), rtol, atol, equal_nan))


def array_equal(a, b):
    a, b = asarray(a), asarray(b)
    a, b = a.fixed(), b.fixed()
    if a.o.shape != b.o.shape:
        return False
    r = True
    for x, y in zip(a.o.reshape(-1), b.o.reshape(-1)):
        r = e_and(r, e_eq(x, y))
    return bool(r)


def sum(a, axis=None, dtype=None, out=None, keepdims=False):
    return reduce_(asarray(a), "sum", axis, dtype, keepdims)


def nansum(a, axis=None, dtype=None, out=None, keepdims=False):
    return reduce_(asarray(a), "nansum", axis, dtype, keepdims)


def prod(a, axis=None, dtype=None):
    if not isinstance(a, ndarray):
        conc = True
        try:
            vals = [_cint(x) if not isinstance(x, (int, float)) else x for x in a]
        except TypeError:
            vals = a
        return rnp.prod(vals, axis=axis, dtype=dtype)
    return reduce_(a, "prod", axis, dtype)


def count_nonzero(a, axis=None):
    return reduce_(asarray(a), "count_nonzero", axis)


def any(a, axis=None):
    return reduce_(asarray(a), "any", axis)


def all(a, axis=None):
    return reduce_(asarray(a), "all", axis)


def amax(a, axis=None):
    return reduce_(asarray(a), "max", axis)


def amin(a, axis=None):
    return reduce_(asarray(a), "min", axis)


def sqrt(x):
    a = asarray(x)
    sh = rnp.sqrt(a.shadow())
    return wrap_result(_cast_arr(snp.EW_SQRT(_cast_arr(a.o, sh.dtype) if a.o.ndim else _fill_obj((), cast(a.o[()], sh.dtype))), sh.dtype), sh.dtype, a.n)


def absolute(x):
    return abs(asarray(x))


def square(x):
    a = asarray(x)
    return binop(a, a, "mul")


def negative(x):
    return -asarray(x)


def positive(x):
    return +asarray(x)


def reciprocal(x):
    a = asarray(x)
    if a.d.kind != "f":
        raise HarnessError("numpy.reciprocal of integers")
    return binop(1.0, a, "div") if False else binop(snp.ones(a.o.shape, dtype=a.d) if a.n is None else a * 0 + 1, a, "div")


def sign(x):
    a = asarray(x)
    pos = binop(a, 0, "gt")
    neg = binop(a, 0, "lt")
    r = where(pos, 1, where(neg, -1, 0))
    if a.d.kind == "f":
        r = where(isnan(a), float("nan"), r.astype(a.d))
    return r.astype(a.d)


def split(ary, indices_or_sections, axis=0):
    """numpy.split at concrete positions (symbolic positions are decided by forking); pieces of a
    symbolic-length array are not modelled."""
    a = asarray(ary)
    if axis != 0 or a.o.ndim != 1:
        raise HarnessError("numpy.split along axis %r of a %d-d array" % (axis, a.o.ndim))
    a = a.fixed()
    n = a.o.shape[0]
    if isinstance(indices_or_sections, (int, SInt)):
        k = _cint(indices_or_sections)
        if k <= 0 or n % k:
            raise ValueError("array split does not result in an equal division")
        cuts = [i * (n // k) for i in range(1, k)]
    else:
        ia = asarray(indices_or_sections).fixed()
        cuts = [_cint(x) for x in ia.o.reshape(-1)]
    out = []
    prev = 0
    for c in cuts + [n]:
        out.append(a[prev:c])       # Python slice semantics, as NumPy (decreasing cut points give empty pieces)
        prev = c
    return out


class LazyBincount:
    """bincount of symbolic magnitudes (C01): a sparse view -- positions are the distinct
    magnitudes (solver-ordered), counts are concrete.  Supports what from_array consumes."""

    def __init__(self, vals):
        uniq = []
        counts = []
        for v in vals:
            for i, u in enumerate(uniq):
                if e_eq(u, v) is True or (e_eq(u, v) is not False and bool(e_eq(u, v))):
                    counts[i] += 1
                    break
            else:
                uniq.append(v)
                counts.append(1)
        p = _sorted_perm(uniq)
        self.keys = [uniq[i] for i in p]
        self.counts = [counts[i] for i in p]
        self.dtype = rnp.dtype(rnp.int64)

    def nonzero(self):
        o = rnp.empty(len(self.keys), dtype=object)
        for i, k in enumerate(self.keys):
            o[i] = k
        return (ndarray(o, rnp.int64),)

    def __getitem__(self, i):
        if isinstance(i, ndarray):
            i = i.scalar_value()
        for k, c in zip(self.keys, self.counts):
            r = e_eq(k, i)
            if r is True or (r is not False and bool(r)):
                return mkscalar(c, rnp.int64)
        return mkscalar(0, rnp.int64)


def bincount(x, weights=None, minlength=0):
    x = asarray(x).fixed()
    if x.o.ndim != 1:
        raise ValueError("object too deep for desired array")
    minlength = _cint(minlength)
    if weights is None and minlength == 0 and builtins_any(isinstance(v, S.SKey) for v in x.o):
        rnp.bincount(x.shadow())
        neg = False
        for v in x.o:
            neg = e_or(neg, e_lt(v, 0))
        if neg is not False and bool(neg):
            raise ValueError("'list' argument must have no negative elements")
        # the result has max(x) + 1 int64 slots (allocation contract, section 2.9): the slot count wraps for
        # the int64 maximum (NumPy then returns an empty array); 2^63 bytes or more is "array is too big";
        # 2^47 bytes or more (the whole x86-64 user address space) cannot be allocated on any machine.
        # Smaller requests are taken to succeed.
        mx = None
        for v in x.o:
            mx = v if mx is None else S.e_max(mx, v)
        if mx is not None:
            if bool(e_eq(mx, 2 ** 63 - 1)):
                return snp.zeros(0, dtype=rnp.int64)
            if bool(e_le(2 ** 60 - 1, mx)):
                raise ValueError("array is too big; `arr.size * arr.dtype.itemsize` is larger than the maximum possible size.")
            if bool(e_le(2 ** 44 - 1, mx)):
                raise MemoryError("Unable to allocate an array of max(x) + 1 int64 slots")
        return LazyBincount(list(x.o))
    shx = x.shadow()
    if weights is not None:
        weights = asarray(weights).fixed()
        rnp.bincount(shx, weights=weights.shadow(), minlength=minlength)     # dtype / shape errors
        outd = rnp.dtype(float)
    else:
        rnp.bincount(shx, minlength=minlength)
        outd = rnp.dtype(rnp.int64)
    _touch(x, "r")
    if weights is not None:
        _touch(weights, "r")
    # negative -> ValueError; length = max(minlength, max(x)+1)
    xs = list(x.o)
    neg = False
    for v in xs:
        neg = e_or(neg, e_lt(v, 0))
    if neg is not False and bool(neg):
        raise ValueError("'list' argument must have no negative elements")
    length = minlength
    over = False
    for v in xs:
        over = e_or(over, e_le(length, v))
    if over is not False and bool(over):
        mx = xs[0]
        for v in xs[1:]:
            mx = S.e_max(mx, v)
        length = _cint(e_add(mx, 1))
    out = rnp.empty(length, dtype=object)
    ws = None if weights is None else [cast(w, outd) for w in weights.o]
    for u in range(length):
        acc = 0 if weights is None else Fraction(0)
        for r, v in enumerate(xs):
            hit = e_eq(v, u)
            if hit is False:
                continue
            acc = e_add(acc, e_ite(hit, 1 if weights is None else ws[r], 0))
        out[u] = acc
    return ndarray(_cast_arr(out, outd), outd)


def _sorted_perm(vals):
    """Stable sort permutation by solver-decided comparisons (forks); NaN sorts last."""
    idx = []
    for i, v in enumerate(vals):
        lo = len(idx)
        # insertion from the right keeps stability
        pos = lo
        while pos > 0:
            w = vals[idx[pos - 1]]
            # move left while v < w   (nan never moves left; anything moves left past nan)
            less = e_or(e_and(e_isnan(w), e_not(e_isnan(v))), e_lt(v, w))
            if bool(less):
                pos -= 1
            else:
                break
        idx.insert(pos, i)
    return idx


def argsort(a, axis=-1, kind=None):
    a = asarray(a).fixed()
    if a.o.ndim != 1:
        raise HarnessError("argsort of an n-d array")
    p = _sorted_perm(list(a.o))
    o = rnp.empty(len(p), dtype=object)
    for j, i in enumerate(p):
        o[j] = i
    return ndarray(o, rnp.int64)


def sort(a, axis=-1, kind=None):
    a = asarray(a).fixed()
    if a.o.ndim != 1:
        raise HarnessError("sort of an n-d array")
    p = _sorted_perm(list(a.o))
    o = rnp.empty(len(p), dtype=object)
    for j, i in enumerate(p):
        o[j] = a.o[i]
    return ndarray(o, a.d)


def unique(a, return_index=False, return_inverse=False, return_counts=False, axis=None):
    a = asarray(a).fixed()
    flat = list(a.o.reshape(-1))
    if a.is_concrete():
        r = rnp.unique(rnp.asarray(a), return_index, return_inverse, return_counts)
        if isinstance(r, tuple):
            return tuple(asarray(x) for x in r)
        return asarray(r)
    if return_index:
        raise HarnessError("unique(return_index) on symbolic data")
    p = _sorted_perm(flat)
    uniq = []
    inv = [None] * len(flat)
    counts = []
    for i in p:
        if uniq and bool(e_eq(flat[i], uniq[-1])):
            counts[-1] += 1
        else:
            uniq.append(flat[i])
            counts.append(1)
        inv[i] = len(uniq) - 1
    def mk(vals, d):
        o = rnp.empty(len(vals), dtype=object)
        for j, v in enumerate(vals):
            o[j] = v
        return ndarray(o, d)
    out = [mk(uniq, a.d)]
    if return_inverse:
        out.append(mk(inv, rnp.int64))
    if return_counts:
        out.append(mk(counts, rnp.int64))
    return out[0] if len(out) == 1 else tuple(out)


def setxor1d(a, b, assume_unique=False):
    """Sorted symmetric difference.  Only its length is consumed by catii (iindex.__eq__)."""
    a, b = asarray(a), asarray(b)
    if a.n is None and b.n is None and a.is_concrete() and b.is_concrete():
        return asarray(rnp.setxor1d(rnp.asarray(a), rnp.asarray(b)))
    a, b = a.fixed(), b.fixed()
    A, B = list(a.o.reshape(-1)), list(b.o.reshape(-1))
    # distinct values that occur in exactly one operand, by solver-decided equalities
    res = []
    for x in A:
        inb = False
        for y in B:
            inb = e_or(inb, e_eq(x, y))
        if not bool(inb):
            dup = False
            for z in res:
                dup = e_or(dup, e_eq(x, z))
            if not bool(dup):
                res.append(x)
    for y in B:
        ina = False
        for x in A:
            ina = e_or(ina, e_eq(x, y))
        if not bool(ina):
            dup = False
            for z in res:
                dup = e_or(dup, e_eq(y, z))
            if not bool(dup):
                res.append(y)
    o = rnp.empty(len(res), dtype=object)
    for i, v in enumerate(res):
        o[i] = v
    d = rnp.result_type(a.d, b.d)
    return sort(ndarray(o, d))


def cumsum(a, axis=None, dtype=None):
    a = asarray(a).fixed()
    sh = rnp.cumsum(a.shadow() if a.o.ndim else rnp.asarray(a.shadow()), axis=axis, dtype=dtype)
    if a.o.ndim > 1 and axis not in (None,):
        if axis % a.o.ndim != 0:
            raise HarnessError("cumsum along a non-leading axis")
        out = rnp.empty(a.o.shape, dtype=object)
        acc = None
        for i in range(a.o.shape[0]):
            acc = a.o[i] if acc is None else snp.EW2["add"](acc, a.o[i])
            out[i] = acc
        return ndarray(_cast_arr(out, sh.dtype), sh.dtype)
    flat = a.o.reshape(-1)
    out = rnp.empty(flat.shape, dtype=object)
    acc = 0
    for i, v in enumerate(flat):
        acc = e_add(acc, v)
        out[i] = acc
    return ndarray(_cast_arr(out, sh.dtype), sh.dtype)


def cumprod(a, axis=None, dtype=None):
    if not isinstance(a, ndarray):
        a = array(a) if len(a) else asarray(rnp.array(a))
    a = a.fixed()
    sh = rnp.cumprod(a.shadow(), axis=axis, dtype=dtype)
    flat = a.o.reshape(-1)
    out = rnp.empty(flat.shape, dtype=object)
    acc = 1
    for i, v in enumerate(flat):
        acc = e_mul(acc, v)
        out[i] = acc
    return ndarray(_cast_arr(out, sh.dtype), sh.dtype)


def flip(a, axis=None):
    a = asarray(a).fixed()
    return ndarray(rnp.flip(a.o, axis), a.d)


def append(arr, values, axis=None):
    a = asarray(arr)
    b = asarray(values)
    sh = rnp.append(a.shadow() if a.o.ndim else rnp.asarray(a.shadow()), b.shadow() if b.o.ndim else rnp.asarray(b.shadow()), axis=axis)
    if axis is not None and (a.o.ndim != 1 or b.o.ndim != 1):
        raise HarnessError("append along an axis of n-d arrays")
    if a.o.ndim != 1:
        a = a.fixed().reshape(-1)
    if b.o.ndim != 1:
        b = b.fixed().reshape(-1)
    return append1d(a, b, sh.dtype)


def concatenate(seq, axis=0, dtype=None):
    seq = [asarray(x) for x in seq]
    if not seq:
        raise ValueError("need at least one array to concatenate")
    sh = rnp.concatenate([x.shadow() for x in seq], axis=axis)
    if all(x.o.ndim == 1 for x in seq):
        r = seq[0]
        if len(seq) == 1:
            return ndarray(r.o.copy(), sh.dtype, r.n)
        for x in seq[1:]:
            r = append1d(r, x, sh.dtype)
        return r
    seq = [x.fixed() for x in seq]
    return ndarray(_cast_arr(rnp.concatenate([x.o for x in seq], axis=axis), sh.dtype), sh.dtype)


def column_stack(seq):
    seq = [asarray(x).fixed() for x in seq]
    sh = rnp.column_stack([x.shadow() for x in seq])
    return ndarray(rnp.column_stack([x.o for x in seq]), sh.dtype)


def stack(seq, axis=0):
    seq = [asarray(x).fixed() for x in seq]
    sh = rnp.stack([x.shadow() for x in seq], axis=axis)
    return ndarray(rnp.stack([x.o for x in seq], axis=axis), sh.dtype)


def clip(a, min=None, max=None, a_min=None, a_max=None):
    a = asarray(a)
    lo = min if min is not None else a_min
    hi = max if max is not None else a_max
    sh = rnp.clip(a.shadow(), snp._shadow_operand(lo) if lo is not None else None, snp._shadow_operand(hi) if hi is not None else None)
    res = a.o
    if lo is not None:
        res = snp.EW2["max"](res, snp._to_objarr(lo))
    if hi is not None:
        res = snp.EW2["min"](res, snp._to_objarr(hi))
    return wrap_result(_cast_arr(res, sh.dtype), sh.dtype, a.n)


def diff(a, n=1, axis=-1, prepend=None, append=None):
    a = asarray(a).fixed()
    if a.o.ndim != 1 or n != 1 or prepend is not None:
        raise HarnessError("diff: unsupported form")
    vals = list(a.o)
    if append is not None:
        vals += list(asarray(append).fixed().o.reshape(-1))
    sh = rnp.diff(a.shadow(), append=snp._deep_shadow(append) if append is not None else rnp._NoValue) if append is not None else rnp.diff(a.shadow())
    out = rnp.empty(builtins_max(len(vals) - 1, 0), dtype=object)
    for i in range(len(vals) - 1):
        out[i] = e_sub(vals[i + 1], vals[i])
    return ndarray(_cast_arr(out, sh.dtype), sh.dtype)


def builtins_any(it_):
    for x in it_:
        if x:
            return True
    return False


def builtins_max(a, b):
    return a if a > b else b


def digitize(x, bins, right=False):
    """Index i such that bins[i-1] <= x < bins[i] (bins increasing); no fork: a count of bins <= x.
    A NaN among the bins or in x makes the comparison false (x: NaN sorts last -> len(bins))."""
    xs = asarray(x)
    b = asarray(bins).fixed()
    if right:
        raise HarnessError("digitize(right=True)")
    def one(v):
        c = 0
        for w in b.o:
            c = e_add(c, e_ite(e_or(e_le(w, v), e_isnan(v)), 1, 0))
        return c
    res = _f(one, 1, 1)(xs.o)
    return wrap_result(_cast_arr(res, rnp.dtype(rnp.int64)), rnp.int64, xs.n)


def take(a, indices, axis=None, out=None, mode="raise"):
    a = asarray(a)
    if axis is None:
        a = a.reshape(-1)
    elif axis % max(a.o.ndim, 1) != 0:
        raise HarnessError("take along a non-leading axis")
    idx = indices if isinstance(indices, (ndarray, int)) or is_sym(indices) else asarray(indices)
    res = a[idx]
    if out is not None:
        out[...] = res
        return out
    return res


def repeat(a, repeats, axis=None):
    a = asarray(a).fixed()
    r = _cint(repeats)
    return ndarray(rnp.repeat(a.o, r, axis=axis), a.d)


def apply_along_axis(func1d, axis, arr, *args, **kwargs):
    arr = asarray(arr).fixed()
    if arr.o.ndim == 1:
        r = func1d(arr, *args, **kwargs)
        return asarray(r) if not isinstance(r, ndarray) else r
    if arr.o.ndim == 2 and axis == 0:
        cols = [func1d(arr[:, j], *args, **kwargs) for j in range(arr.o.shape[1])]
        cols = [asarray(c) for c in cols]
        if cols and cols[0].o.ndim == 0:
            o = rnp.empty(len(cols), dtype=object)
            for j, c in enumerate(cols):
                o[j] = c.scalar_value()
            return ndarray(o, cols[0].d if cols else arr.d)
        return stack(cols, axis=-1)
    raise HarnessError("apply_along_axis form")


def ascontiguousarray(a, dtype=None):
    a = asarray(a, dtype).fixed()
    return ndarray(rnp.ascontiguousarray(a.o), a.d)


asfortranarray = ascontiguousarray


def zeros_like(a, dtype=None):
    a = asarray(a).fixed()
    return snp.zeros(a.o.shape, dtype if dtype is not None else a.d)


def ones_like(a, dtype=None):
    a = asarray(a).fixed()
    return snp.ones(a.o.shape, dtype if dtype is not None else a.d)


def empty_like(a, dtype=None):
    a = asarray(a).fixed()
    return snp.empty(a.o.shape, dtype if dtype is not None else a.d)


def full_like(a, fill_value, dtype=None):
    a = asarray(a).fixed()
    return snp.full(a.o.shape, fill_value, dtype if dtype is not None else a.d)


def flatnonzero(a):
    return _nonzero(asarray(a).reshape(-1) if asarray(a).o.ndim != 1 else asarray(a))[0]


def logical_not(a):
    a = asarray(a)
    return wrap_result(_f(lambda v: e_not(mkbool(bt(v)) if is_sym(v) else bool(v)), 1, 1)(a.o), bool, a.n)


def _fn2(name):
    def f(a, b):
        return binop(asarray(a) if not isinstance(a, ndarray) and isinstance(a, (list, tuple)) else a, b, name) \
            if isinstance(a, ndarray) or isinstance(a, (list, tuple)) else binop(a, asarray(b), name)
    return f


def logical_and(a, b):
    a, b = asarray(a), asarray(b)
    return binop(a.astype(bool) if a.d.kind != "b" else a, b.astype(bool) if b.d.kind != "b" else b, "and")


def logical_or(a, b):
    a, b = asarray(a), asarray(b)
    return binop(a.astype(bool) if a.d.kind != "b" else a, b.astype(bool) if b.d.kind != "b" else b, "or")


def maximum(a, b):
    a, b = asarray(a), asarray(b)
    sh = rnp.maximum(a.shadow(), b.shadow())
    return wrap_result(_cast_arr(snp.EW2["max"](a.o, b.o), sh.dtype), sh.dtype, snp._symlen(a, b) if snp._symlen(a, b) != "mixed" else None)


def minimum(a, b):
    a, b = asarray(a), asarray(b)
    sh = rnp.minimum(a.shadow(), b.shadow())
    return wrap_result(_cast_arr(snp.EW2["min"](a.o, b.o), sh.dtype), sh.dtype, snp._symlen(a, b) if snp._symlen(a, b) != "mixed" else None)


def hstack(seq):
    seq = [asarray(x) for x in seq]
    if builtins_all(x.o.ndim == 1 for x in seq):
        return concatenate(seq)
    return concatenate(seq, axis=1)


def vstack(seq):
    seq = [asarray(x).fixed() for x in seq]
    seq = [x.reshape(1, -1) if x.o.ndim == 1 else x for x in seq]
    return concatenate(seq, axis=0)


def builtins_all(it_):
    for x in it_:
        if not x:
            return False
    return True


def isin(element, test_elements, **kw):
    a = asarray(element)
    t = asarray(test_elements).fixed()
    vals = list(t.o.reshape(-1))

    def f(v):
        r = False
        for w in vals:
            r = e_or(r, e_eq(v, w))
        return r
    return wrap_result(_f(f, 1, 1)(a.o), bool, a.n)


in1d = isin


def ndim(a):
    return asarray(a).o.ndim


def shape(a):
    return asarray(a).shape


def size(a, axis=None):
    a = asarray(a)
    return a.size if axis is None else a.shape[axis]


def nanmax(a, axis=None):
    a = asarray(a)
    fl = _f(lambda v: e_ite(e_isnan(v), float("-inf"), v), 1, 1)(a.o)
    return reduce_(ndarray(fl, a.d, a.n), "max", axis)


def nanmin(a, axis=None):
    a = asarray(a)
    fl = _f(lambda v: e_ite(e_isnan(v), float("inf"), v), 1, 1)(a.o)
    return reduce_(ndarray(fl, a.d, a.n), "min", axis)


def mean(a, axis=None):
    return asarray(a).mean(axis)


def copyto(dst, src, where=True):
    if where is not True:
        raise HarnessError("copyto(where=)")
    dst[...] = src


def searchsorted(a, v, side="left"):
    """Count of elements of the sorted array a that are < v (left) / <= v (right): no fork."""
    a = asarray(a).fixed()
    xs = asarray(v)

    def one(x):
        c = 0
        for w in a.o:
            c = e_add(c, e_ite(e_lt(w, x) if side == "left" else e_le(w, x), 1, 0))
        return c
    return wrap_result(_cast_arr(_f(one, 1, 1)(xs.o), rnp.dtype(rnp.int64)), rnp.int64, xs.n)


class errstate:
    def __init__(self, **kw):
        pass

    def __enter__(self):
        return self

    def __exit__(self, *a):
        return False


def _quantile(a, q, axis, nan_policy):
    """Linear-interpolation quantile by its textbook definition (NumPy's numerics trusted).
    nan_policy: 'propagate' (numpy.quantile) or 'omit' (numpy.nanquantile)."""
    a = asarray(a).fixed()
    qv = asarray(q)
    if qv.o.ndim != 0:
        raise HarnessError("vector of quantiles")
    qv = qv.scalar_value()
    if axis not in (0, None) or a.o.ndim > 2:
        raise HarnessError("quantile axis")
    if a.o.ndim == 2:
        cols = [_quantile(a[:, j], q, 0, nan_policy) for j in range(a.o.shape[1])]
        o = rnp.empty(len(cols), dtype=object)
        for j, c in enumerate(cols):
            o[j] = c.scalar_value()
        return ndarray(o, rnp.dtype(float))
    vals = [cast(v, rnp.dtype(float)) for v in a.o]
    if nan_policy == "omit":
        keep = []
        for v in vals:
            if not bool(e_isnan(v)):
                keep.append(v)
        vals = keep
        if not vals:
            return mkscalar(float("nan"), float)
        anynan = False
    else:
        anynan = False
        for v in vals:
            anynan = e_or(anynan, e_isnan(v))
        if not vals:
            return mkscalar(float("nan"), float)
    if anynan is not False and bool(anynan):
        return mkscalar(float("nan"), float)
    p = _sorted_perm(vals)
    sv = [vals[i] for i in p]
    n = len(sv)
    # virtual index q*(n-1); fork over the integer part (n is tiny)
    pos = e_mul(qv, n - 1)
    for lo in range(n):
        last = lo == n - 1
        inside = True if last else bool(e_lt(pos, lo + 1))
        if inside:
            if last:
                return mkscalar(sv[lo], float)
            frac = e_sub(pos, lo)
            return mkscalar(e_add(sv[lo], e_mul(frac, e_sub(sv[lo + 1], sv[lo]))), float)
    raise HarnessError("quantile: unreachable")


def quantile(a, q, axis=None, **kw):
    return _quantile(a, q, axis, "propagate")


def nanquantile(a, q, axis=None, **kw):
    return _quantile(a, q, axis, "omit")


def cov(m, y=None, rowvar=True, bias=False, ddof=None, fweights=None, aweights=None):
    """Covariance by definition (variables in rows); NaN taints exactly the entries involving it."""
    m = asarray(m).fixed()
    if y is not None or fweights is not None or not rowvar or bias or ddof is not None:
        raise HarnessError("cov form")
    if m.o.ndim == 1:
        m = m.reshape(1, -1)
    nv, nobs = m.o.shape
    fl = rnp.dtype(float)
    X = [[cast(m.o[i, r], fl) for r in range(nobs)] for i in range(nv)]
    if aweights is None:
        w = [Fraction(1)] * nobs
    else:
        aw = asarray(aweights).fixed()
        if aw.o.shape != (nobs,):
            raise RuntimeError("incompatible numbers of samples and aweights")
        w = [cast(v, fl) for v in aw.o]
        negw = False
        for v in w:
            negw = e_or(negw, e_lt(v, 0))
        if negw is not False and bool(negw):
            raise ValueError("aweights cannot be negative")
    out = rnp.empty((nv, nv), dtype=object)
    if nobs == 0:
        for i in range(nv):
            for j in range(nv):
                out[i, j] = float("nan")
        return ndarray(out, fl)
    v1 = 0
    v2 = 0
    for x in w:
        v1 = e_add(v1, x)
        v2 = e_add(v2, e_mul(x, x))
    means = []
    for i in range(nv):
        s = 0
        for r in range(nobs):
            s = e_add(s, e_mul(w[r], X[i][r]))
        means.append(e_div(s, v1))
    # normalisation: v1 - ddof*v2/v1 with ddof = 1
    norm = e_sub(v1, e_div(v2, v1))
    for i in range(nv):
        for j in range(i, nv):
            s = 0
            for r in range(nobs):
                s = e_add(s, e_mul(w[r], e_mul(e_sub(X[i][r], means[i]), e_sub(X[j][r], means[j]))))
            # numpy clips a non-positive normaliser to 0 (division gives nan/inf)
            c = e_div(s, e_ite(e_le(norm, 0), 0, norm))
            out[i, j] = c
            out[j, i] = c
    res = ndarray(out, fl)
    return res if nv > 1 else mkscalar(out[0, 0], fl)


def corrcoef(x, y=None, rowvar=True):
    x = asarray(x).fixed()
    if y is not None:
        raise HarnessError("corrcoef form")
    if not rowvar and x.o.ndim == 2:
        x = x.T
    c = cov(x)
    fl = rnp.dtype(float)
    if c.o.ndim == 0:
        v = c.scalar_value()
        return mkscalar(e_div(v, v), fl)
    nv = c.o.shape[0]
    sd = [S.e_sqrt(c.o[i, i]) for i in range(nv)]
    out = rnp.empty((nv, nv), dtype=object)
    for i in range(nv):
        for j in range(nv):
            r = e_div(e_div(c.o[i, j], sd[i]), sd[j])
            # numpy clips to [-1, 1]
            r = e_ite(e_lt(1, r), 1, e_ite(e_lt(r, -1), -1, r))
            out[i, j] = r
    return ndarray(_cast_arr(out, fl), fl)


class _GenericMeta(type):
    def __instancecheck__(cls, x):
        return isinstance(x, (npscalar, rnp.generic))


class generic(metaclass=_GenericMeta):
    pass


class _IntegerMeta(type):
    def __instancecheck__(cls, x):
        return isinstance(x, rnp.integer) or (isinstance(x, npscalar) and x.d.kind in "iu")


class integer(metaclass=_IntegerMeta):
    pass


class _NdMeta(type):
    def __instancecheck__(cls, x):
        return isinstance(x, ndarray) and not isinstance(x, npscalar)

    def __call__(cls, *a, **k):
        raise HarnessError("numpy.ndarray(...) constructor in the Int shim")


class ndarray_type(metaclass=_NdMeta):
    pass


def _with_out(fn):
    """ufunc-style ``out=`` argument: the result is stored into the given array (cast to its dtype, recorded as a
    write for the footprint analysis) and that array is returned.  ``where=`` is not modelled."""
    def call(*a, out=None, where=True, **k):
        if where is not True:
            raise HarnessError("ufunc where= argument is not modelled")
        r = fn(*a, **k)
        if out is None:
            return r
        if isinstance(out, tuple):
            if len(out) != 1:
                raise HarnessError("ufunc out= tuple of %d" % len(out))
            out = out[0]
        if not isinstance(out, ndarray):
            raise TypeError("return arrays must be of ArrayType")
        rs = r.o.shape if isinstance(r, ndarray) else ()
        if tuple(rnp.broadcast_shapes(rs, out.o.shape)) != tuple(out.o.shape):
            raise ValueError("non-broadcastable output operand with shape %r doesn't match the broadcast shape" % (out.o.shape,))
        out[...] = r
        return out
    call.__name__ = getattr(fn, "__name__", "ufunc")
    return call


class NumpyShim:
    """The object catii's modules see as ``numpy``."""

    def __init__(self):
        g = globals()
        for name in ("where nonzero isnan isinf isfinite isclose allclose array_equal sum nansum prod count_nonzero any all "
                     "amax amin sqrt absolute bincount argsort sort unique setxor1d cumsum cumprod flip append concatenate "
                     "column_stack stack hstack vstack ascontiguousarray clip diff digitize repeat take zeros_like ones_like empty_like full_like flatnonzero logical_not logical_and logical_or maximum minimum isin in1d ndim shape size nanmax nanmin mean copyto searchsorted apply_along_axis errstate quantile nanquantile cov "
                     "corrcoef generic integer split").split():
            setattr(self, name, g[name])
        self.max = amax
        self.min = amin
        for _n, _op in (("add", "add"), ("subtract", "sub"), ("multiply", "mul"), ("divide", "div"), ("true_divide", "div"),
                        ("equal", "eq"), ("not_equal", "ne"), ("less", "lt"), ("less_equal", "le"), ("greater", "gt"),
                        ("greater_equal", "ge"), ("floor_divide", "floordiv"), ("mod", "mod"), ("remainder", "mod"), ("power", "pow")):
            setattr(self, _n, _with_out((lambda o: (lambda a, b, dtype=None: binop(asarray(a), b, o, out_dtype=None if dtype is None else rnp.dtype(dtype))))(_op)))
        for _n in ("square", "negative", "positive", "reciprocal", "sign", "sqrt", "absolute", "logical_not", "logical_and", "logical_or", "maximum", "minimum", "isnan", "cumsum"):
            setattr(self, _n, _with_out(g[_n]))
        self.abs = self.absolute
        self.ndarray = ndarray_type
        for name in "asarray array zeros ones empty full arange".split():
            setattr(self, name, getattr(snp, name))
        for name in ("uint8 uint16 uint32 uint64 int8 int16 int32 int64 float64 float32 bool_ intp datetime64 timedelta64 "
                     "dtype iinfo finfo nan inf newaxis pi e result_type floating number bool complexfloating "
                     "signedinteger unsignedinteger str_ object_").split():
            if hasattr(rnp, name):
                setattr(self, name, getattr(rnp, name))
        self.__name__ = "numpy"

    def __getattr__(self, name):
        if name.startswith("__"):
            raise AttributeError(name)
        real = getattr(rnp, name)      # AttributeError for names NumPy does not have (e.g. numpy.object)
        if not callable(real) or isinstance(real, type):
            return real

        def passthrough(*a, **k):
            def conv(x):
                if isinstance(x, ndarray):
                    if not x.is_concrete():
                        raise HarnessError("numpy.%s is not modelled for symbolic data" % name)
                    return rnp.asarray(x)
                if is_sym(x):
                    raise HarnessError("numpy.%s is not modelled for symbolic data" % name)
                if isinstance(x, (list, tuple)):
                    return type(x)(conv(v) for v in x)
                if isinstance(x, Fraction):
                    return float(x)
                return x
            r = real(*[conv(x) for x in a], **{kk: conv(v) for kk, v in k.items()})
            def back(x):
                if isinstance(x, (rnp.ndarray, rnp.generic)):
                    return asarray(x)
                if isinstance(x, tuple):
                    return tuple(back(v) for v in x)
                return x
            return back(r)
        return passthrough


NUMPY = NumpyShim()
