import argparse
import os
import sys


def main():
    ap = argparse.ArgumentParser()
    ap.add_argument("pid")
    ap.add_argument("--tier", default=None)
    ap.add_argument("--replay", default=None)
    a = ap.parse_args()
    tier = a.tier or os.environ.get("VERIF_TIER") or "quick"
    if os.environ.get("VERIF_TIER") and a.tier is None:
        tier = os.environ["VERIF_TIER"]
    if tier not in ("quick", "thorough"):
        tier = "quick"
    try:
        seed = int(os.environ.get("VERIF_SEED", "0"))
    except ValueError:
        seed = 0
    sys.setrecursionlimit(20000)
    import warnings
    warnings.filterwarnings("ignore")
    from . import driver
    if a.replay:
        sys.exit(driver.run_replay(a.pid, a.replay))
    try:
        rc = driver.run_check(a.pid, tier, seed)
    except Exception as ex:
        import traceback
        traceback.print_exc()
        print("HARNESS-ERROR: %s" % ex)
        rc = 2
    sys.exit(rc)


if __name__ == "__main__":
    main()
