"""C13 - extra axes are outermost, in order, and index independent sub-cubes."""
import itertools

import numpy as rnp
import z3

from harness import aggs, C03
from symex import loader
from symex.engine import Violation, Abort, Inconclusive, HarnessError

ID = "C13"
LEVEL = "model_checking"
REWRITES = loader.REWRITES
STUBS = C03.STUBS
ASSUMPTIONS = C03.ASSUMPTIONS + ["the block at each extra-axis position is compared with the direct per-cell computation over the categories of "
                                 "that position's 1-D slices, assembled by the harness from its own symbolic data (not via sliced/slices1d)"]
ENGINE_OPTS = C03.ENGINE_OPTS


def bounds(tier):
    return {"extra axes": "(2,), (2,3), (3,), (2,)+(2,)" if tier == "quick" else "(2,), (3,), (2,3), (3,2), (1,4), (2,2)+(2,), (2,)+(3,)",
            "N": "2..3", "E": 2, "aggregates": "count, valid_count, sum, mean on both cube types"}


def configs(tier, seed):
    out = []
    shapes = [([[2]], 3), ([[2, 3]], 2), ([[3], []], 2), ([[2], [2]], 2), ([[], [2]], 2)]
    if tier == "thorough":
        shapes += [([[3, 2]], 2), ([[1, 4]], 2), ([[2, 2], [2]], 2), ([[2], [3]], 2), ([[2, 3]], 3), ([[4]], 2)]
    i = seed
    for dims, N in shapes:
        for agg in C03.AGGS:
            i += 1
            if tier == "quick" and len(dims) > 1 and agg in ("valid_count",):
                continue
            D = len(dims)
            for side in ("ccube", "xcube"):
                out.append(C03._base(N, dims, 2, [(i + d) % 2 for d in range(D)], agg,
                                     weights=["none", "array", "pair", "scalar"][i % 4], ignore=bool(i % 2),
                                     fmt=["nan", "pair"][i % 2], fact=["nan", "pair"][(i // 2) % 2], K=1, side=side))
    # three dimensions, the one with an extra axis first, in the middle and last (sub-cube pairing across a product
    # of three slice lists)
    for pos in range(3):
        dims = [[], [], []]
        dims[pos] = [2]
        for agg in (("count", "sum") if tier == "quick" else C03.AGGS):
            i += 1
            for side in ("ccube", "xcube"):
                out.append(C03._base(2, dims, 2, [(i + d) % 2 for d in range(3)], agg, weights=["none", "array"][i % 2],
                                     ignore=bool(i % 2), fmt="nan", fact="nan", K=1, side=side))
    # an extra axis of extent 1 beside a longer one (its coordinates never change from one sub-cube to the next)
    for dims in ([[2], [1]], [[1], [2]]):
        for agg in ("count", "mean"):
            i += 1
            for side in ("ccube", "xcube"):
                out.append(C03._base(2, dims, 2, [i % 2, (i + 1) % 2], agg, weights=["none", "array"][i % 2], ignore=bool(i % 2),
                                     fmt="nan", fact="nan", K=1, side=side))
    if tier == "thorough":
        for dims in ([[2], [2], []], [[2], [], [3]]):
            for side in ("ccube", "xcube"):
                out.append(C03._base(2, dims, 2, [0, 1, 0], "count", weights="array", ignore=False, fmt="nan", fact="nan", K=1, side=side))
    return out


def explore(cfg, eng, ctx):
    C03.explore(cfg, eng, ctx, sides=(cfg["side"],))


def functions():
    return C03.functions() + loader.function_info("iindexes.py", ["iindex.slices1d"]) + \
        loader.function_info("ccubes.py", ["ccube.product"]) + loader.function_info("xcubes.py", ["xcube.product"])
