"""C12 - a torn INDX file is always rejected: the cut point is one solver variable per file."""
from harness import indx

ID = "C12"
LEVEL = "model_checking"
REWRITES = ["len/type/int/isinstance -> engine-aware versions"]
STUBS = __import__("harness.C10", fromlist=["STUBS"]).STUBS + ["read(n) returns min(n, k - pos) bytes of a file cut at the symbolic position k"]
ASSUMPTIONS = ["the decisive stub is mmap's documented 'length greater than file size' ValueError (CPython/Linux); an empty file cannot be mapped",
               "structure bounds as C10; ALL cut points 0 <= k < len(F) of each file are covered by the single variable k"]
ENGINE_OPTS = {"quick": dict(wall_s=900), "thorough": dict(wall_s=3000)}


def bounds(tier):
    return {"structures": "as C10", "cut point": "symbolic, every k in [0, len(F))"}


def configs(tier, seed):
    return indx.structures(tier, seed)


def explore(cfg, eng, ctx):
    indx.explore_torn(cfg, eng, ctx)


functions = indx.functions
