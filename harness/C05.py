"""C05 - results are independent of which category is stored as common."""
import itertools

import numpy as rnp
import z3

from harness import aggs, C03
from symex import loader
from symex.engine import Violation, Abort, Inconclusive, HarnessError
from symex.scalars import rparts, bt

ID = "C05"
LEVEL = "model_checking"
REWRITES = loader.REWRITES
STUBS = C03.STUBS
ASSUMPTIONS = C03.ASSUMPTIONS + ["the cube shape is explicit with one spare category, so that 'a value outside the data' is a legal category of every cube compared",
                                 "relational oracle: outputs of the original, the re-expressed and the re-normalised cube are compared cell by cell (missing flags exactly, values as rationals)"]
ENGINE_OPTS = C03.ENGINE_OPTS


def bounds(tier):
    return {"N": "<=3", "D": "1..2 one-axis, plus a (N,2) dimension alone and with a plain dimension", "E": "2 data categories + 1 spare", "new common": "every value in 0..E (E never occurs)",
            "aggregates": "count, valid_count, sum, mean with a covering set of weights/policy/format"}


def configs(tier, seed):
    out = []
    i = seed
    E = 2
    for agg in C03.AGGS:
        for wf in (("none", "array", "scalar") if tier == "quick" else ("none", "array", "pair", "scalar")):
            for D in (1, 2):
                if D == 2 and wf == "scalar" and tier == "quick":
                    continue
                for d in range(D):
                    for v in range(E + 1):
                        i += 1
                        commons = [(i + j) % 2 for j in range(D)]
                        if v == commons[d]:
                            v2 = (v + 1) % (E + 1)
                        else:
                            v2 = v
                        out.append(C03._base(3 if D == 1 else 2, [[]] * D, E, commons, agg, weights=wf, ignore=bool(i % 2),
                                             fmt=["nan", "pair"][i % 2], fact=["nan", "pair"][(i // 2) % 2], K=1, shift_dim=d, new_common=v2))
    # dimensions with extra axes (a column may consist of the common value only)
    for agg in (("count", "sum") if tier == "quick" else C03.AGGS):
        for dims, N in (([[2]], 2), ([[2], []], 2)):
            D = len(dims)
            for v in range(E + 1):
                i += 1
                commons = [(i + j) % 2 for j in range(D)]
                v2 = (v + 1) % (E + 1) if v == commons[0] else v
                out.append(C03._base(N, dims, E, commons, agg, weights=["none", "array"][i % 2], ignore=bool(i % 2),
                                     fmt="nan", fact="nan", K=1, shift_dim=0, new_common=v2))
    return out


def same_outputs(a, b, fmt):
    va, ba = aggs.split_result(a, fmt)
    vb, bb = aggs.split_result(b, fmt)
    if tuple(va.o.shape) != tuple(vb.o.shape):
        return z3.BoolVal(False)
    cs = []
    for x, y in zip(va.o.reshape(-1), vb.o.reshape(-1)):
        tx, nx, ix = rparts(x)
        ty, ny, iy = rparts(y)
        cs.append(z3.And(bt(nx) == bt(ny), bt(ix) == bt(iy), z3.Implies(z3.Not(bt(nx)), tx == ty)))
    if ba is not None:
        for x, y in zip(ba.o.reshape(-1), bb.o.reshape(-1)):
            cs.append(bt(x) == bt(y))
    return z3.And(*cs)


def explore(cfg, eng, ctx):
    C = aggs.catii("summary")
    agg, ignore, fmt = cfg["agg"], cfg["ignore"], cfg["fmt"]
    D = len(cfg["dims"])
    ishape = tuple([cfg["E"] + 1] * D)
    if any(cfg["dims"]):
        ASSUMPTIONS  # (multi-axis dimensions: same relational oracle, blocks compared cell by cell)

    def path():
        data = aggs.Data(eng, cfg)

        def builder(model):
            c = data.case(model)
            c.update(kind="shift", agg=agg, ignore=ignore, fmt=fmt, commons=cfg["commons"], ishape=list(ishape),
                     shift_dim=cfg["shift_dim"], new_common=cfg["new_common"])
            return c
        ctx.case_builder = builder
        fact, weights = data.fact(), data.weights()
        rma = aggs.fmt_value(fmt, data)
        try:
            dims = data.index_dims(C, cfg["commons"])
            base = aggs.call_aggregate(C.ccubes.ccube(dims, interacting_shape=ishape), C.ffuncs, "ffunc_", agg, fact, weights, ignore, rma)[1]
            shifted = dims[cfg["shift_dim"]].copy()
            shifted.shift_common(cfg["new_common"])
            dims2 = list(dims)
            dims2[cfg["shift_dim"]] = shifted
            r2 = aggs.call_aggregate(C.ccubes.ccube(dims2, interacting_shape=ishape), C.ffuncs, "ffunc_", agg, fact, weights, ignore, rma)[1]
            renorm = shifted.copy()
            renorm.shift_common()
            dims3 = list(dims)
            dims3[cfg["shift_dim"]] = renorm
            r3 = aggs.call_aggregate(C.ccubes.ccube(dims3, interacting_shape=ishape), C.ffuncs, "ffunc_", agg, fact, weights, ignore, rma)[1]
        except (Violation, Abort, Inconclusive, HarnessError):
            raise
        except Exception as ex:
            eng.assert_(False, "raised %s: %s" % (type(ex).__name__, str(ex)[:100]))
            return
        eng.assert_(z3.BoolVal(shifted.common == cfg["new_common"]), "shift_common(v) did not set the common value")
        eng.assert_(same_outputs(base, r2, fmt), "%s changed after re-expressing dimension %d with common %d" % (agg, cfg["shift_dim"], cfg["new_common"]))
        eng.assert_(same_outputs(base, r3, fmt), "%s changed after re-normalising the re-expressed dimension" % agg)
        # and the original is also right in absolute terms (ties the relation to the oracle)
        cs = []
        aggs.compare(data, base, fmt, agg, ignore, ishape, "ccube", cs)
        aggs.assert_all(eng, cs, "ccube %s differs from the direct per-cell computation" % agg)
        ctx.end_path()

    eng.explore(path)


def functions():
    return C03.functions() + loader.function_info("iindexes.py", ["iindex.shift_common", "iindex.common_rowids", "iindex.copy"])
