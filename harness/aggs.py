"""Shared machinery for the aggregate properties (C03, C04, C05, C13, C16, C17, C20):
symbolic row data (categories, facts, validity, weights), index and dense dimensions built
from the same symbolic categories, and the direct per-cell oracle written in SMT."""
import itertools
from fractions import Fraction

import numpy as rnp
import z3

from symex import loader, snp, snp_funcs
from symex import scalars as S
from symex.engine import E, Violation, Abort, HarnessError
from symex.scalars import SInt, SReal, SBool, it, bt, rparts, mkbool, mkint

from harness import cubes

RV = z3.RealVal
PALETTE = [Fraction(0), Fraction(1, 2), Fraction(1), Fraction(3)]


def catii(kernels="summary"):
    return cubes.catii(kernels)


def _arr(vals, dtype, shape=None):
    o = rnp.empty(len(vals), dtype=object)
    for i, v in enumerate(vals):
        o[i] = v
    if shape is not None:
        o = o.reshape(shape)
    return snp.ndarray(o, dtype)


class Data:
    """Symbolic row data for one configuration."""

    def __init__(self, eng, cfg, tag=""):
        self.cfg = cfg
        self.tag = tag
        N = self.N = cfg["N"]
        self.Es = cfg["E"] if isinstance(cfg["E"], list) else [cfg["E"]] * len(cfg["dims"])
        self.extras = [tuple(e) for e in cfg["dims"]]            # extra axes per dimension
        # categories: cats[d][sub][r]
        self.cats = []
        for d, extra in enumerate(self.extras):
            per = {}
            for sub in itertools.product(*[range(e) for e in extra]):
                cs = [z3.Int("%sc%d_%s_%d" % (tag, d, "_".join(map(str, sub)), r)) for r in range(N)]
                for c in cs:
                    eng.assume(c >= 0, c < self.Es[d])
                per[sub] = cs
            self.cats.append(per)
        K = self.K = cfg.get("K", 1)
        form = self.form = cfg.get("fact", "nan")       # nan | pair | intpair | none
        self.vals = None
        if form != "none":
            # integer facts: Real variables marked integer-valued (a superset of the integers; the
            # library's arithmetic on them is identical, casts are the identity) -> VCs stay in real arithmetic
            self.vt = [[z3.Real("%sv%d_%d" % (tag, r, k)) for k in range(K)] for r in range(N)]
            self.vvalid = [[z3.Bool("%sfv%d_%d" % (tag, r, k)) for k in range(K)] for r in range(N)]
            self.hidden_nan = [[z3.Bool("%shn%d_%d" % (tag, r, k)) for k in range(K)] for r in range(N)]
            for row in self.vt:
                for t in row:
                    # magnitudes bounded (rounding in replays stays far below the comparison tolerance)
                    eng.assume(t >= -2 ** 20, t <= 2 ** 20)
                    eng.prefer.append(z3.And(t >= -4, t <= 4, z3.IsInt(t)))
        wf = self.wform = cfg.get("weights", "none")   # none | scalar | array | pair
        self.wt = None
        if wf in ("array", "pair"):
            if cfg.get("wvals"):
                # concrete weights per configuration (structure); validity stays symbolic
                self.wt = [RV(x) for x in cfg["wvals"]]
            elif cfg.get("wreal"):
                self.wt = [z3.Real("w%d" % r) for r in range(N)]
                for t in self.wt:
                    eng.assume(t >= 0)
            else:
                self.wsel = [(z3.Bool("wa%d" % r), z3.Bool("wb%d" % r)) for r in range(N)]
                self.wt = [z3.If(a, z3.If(b, RV(3), RV(1)), z3.If(b, RV("1/2"), RV(0))) for a, b in self.wsel]
            self.wvalid = [z3.Bool("wv%d" % r) for r in range(N)]
            self.whidden_nan = [z3.Bool("whn%d" % r) for r in range(N)]
        elif wf == "scalar":
            a, b = z3.Bool("wsa"), z3.Bool("wsb")
            self.wscalar = z3.If(a, z3.If(b, RV(3), RV(2)), z3.If(b, RV("1/2"), RV(0)))
            self.wt = [self.wscalar] * N
        self.sentinel = z3.Int("sentinel")
        eng.assume(self.sentinel >= -1000, self.sentinel <= 1000)

    # ---- library inputs
    def fact(self):
        if self.form == "none":
            return None
        N, K = self.N, self.K
        fl = rnp.dtype(float)
        if self.form == "nan":
            vals = [SReal(self.vt[r][k], z3.Not(self.vvalid[r][k]), False) for r in range(N) for k in range(K)]
            return _arr(vals, fl, (N, K) if K > 1 or self.cfg.get("force2d") else (N,))
        if self.form == "pair":
            vals = [SReal(self.vt[r][k], z3.And(z3.Not(self.vvalid[r][k]), self.hidden_nan[r][k]), False)
                    for r in range(N) for k in range(K)]
            d = fl
        else:
            vals = [SReal(self.vt[r][k], False, False, True) for r in range(N) for k in range(K)]
            d = rnp.dtype(rnp.int64)
        valid = [SBool(self.vvalid[r][k]) for r in range(N) for k in range(K)]
        shape = (N, K) if K > 1 or self.cfg.get("force2d") else (N,)
        return (_arr(vals, d, shape), _arr(valid, bool, shape))

    def weights(self):
        N = self.N
        fl = rnp.dtype(float)
        if self.wform == "none":
            return None
        if self.wform == "scalar":
            return S.mkreal(self.wscalar)
        if self.wform == "array":
            return _arr([SReal(self.wt[r], z3.Not(self.wvalid[r]), False) for r in range(N)], fl)
        return (_arr([SReal(self.wt[r], z3.And(z3.Not(self.wvalid[r]), self.whidden_nan[r]), False) for r in range(N)], fl),
                _arr([SBool(self.wvalid[r]) for r in range(N)], bool))

    def dense_dims(self, dtype=rnp.int64):
        out = []
        for d, extra in enumerate(self.extras):
            o = rnp.empty((self.N,) + extra, dtype=object)
            for sub, cs in self.cats[d].items():
                for r, c in enumerate(cs):
                    o[(r,) + sub] = SInt(c)
            out.append(snp.ndarray(o, dtype))
        return out

    def index_dims(self, C, commons):
        """Inverted indexes built by the harness from the same symbolic categories (compaction);
        the presence of each key is a path decision (n > 0)."""
        eng = E()
        dims = []
        for d, extra in enumerate(self.extras):
            ent = {}
            for sub, cs in self.cats[d].items():
                for v in range(self.Es[d]):
                    if v == commons[d]:
                        continue
                    mask = _arr([mkbool(c == v) for c in cs], bool)
                    (rows,) = mask.nonzero()
                    n = rows.n if rows.n is not None else rows.o.shape[0]
                    if bool(S.e_lt(0, n)):
                        ent[(v,) + sub] = rows.astype(rnp.uint32)
            ix = C.iindexes.iindex.__new__(C.iindexes.iindex)
            dict.__init__(ix, ent)
            ix.common = commons[d]
            ix.shape = (self.N,) + extra
            ix.rowid_dtype = C.iindexes.iindex.ROWID_DTYPE
            dims.append(ix)
        return dims

    # ---- oracle
    def fvalid(self, r, k):
        if self.form == "none":
            return z3.BoolVal(True)
        return self.vvalid[r][k]

    def wvalid_(self, r):
        if self.wform in ("array", "pair"):
            return self.wvalid[r]
        return z3.BoolVal(True)

    def w(self, r):
        return RV(1) if self.wt is None else self.wt[r]

    def val(self, r, k):
        return self.vt[r][k]

    def cell_oracle(self, agg, ignore, subs, cell, k):
        """(missing: z3 Bool, value: z3 Real) of one output cell / column by the rule of C04."""
        N = self.N
        inc = [z3.And(*[self.cats[d][tuple(subs[d])][r] == cell[d] for d in range(len(self.extras))]) if self.extras else z3.BoolVal(True)
               for r in range(N)]
        usef = agg != "count"
        ok = [z3.And(self.fvalid(r, k) if usef else z3.BoolVal(True), self.wvalid_(r)) for r in range(N)]
        I = lambda c: z3.If(c, 1, 0)
        nrows = z3.Sum([I(inc[r]) for r in range(N)] + [z3.IntVal(0)])
        nvalid = z3.Sum([I(z3.And(inc[r], ok[r])) for r in range(N)] + [z3.IntVal(0)])
        wsum = z3.Sum([z3.If(z3.And(inc[r], ok[r]), self.w(r), RV(0)) for r in range(N)] + [RV(0)])
        missing = z3.Or(nrows == 0, (nvalid == 0) if ignore else (nvalid != nrows))
        if agg in ("count", "valid_count"):
            value = wsum
        else:
            num = z3.Sum([z3.If(z3.And(inc[r], ok[r]), S._lin_mul(self.val(r, k), self.w(r)), RV(0)) for r in range(N)] + [RV(0)])
            if agg == "sum":
                value = num
            else:
                missing = z3.Or(missing, wsum == 0)
                value = num / z3.If(wsum == 0, RV(1), wsum)
        return missing, value, wsum

    # ---- concrete case for replays
    def case(self, model):
        ev = lambda t: S.ev(model, t)
        c = dict(N=self.N, E=self.Es, extras=[list(e) for e in self.extras])
        c["cats"] = [[[list(sub), [ev(x) for x in cs]] for sub, cs in per.items()] for per in self.cats]
        from oracle.codec import enc
        if self.form in ("intpair", "dt", "dtpair"):
            for r in range(self.N):
                for k in range(self.K):
                    if Fraction(ev(self.vt[r][k])).denominator != 1:
                        return None          # over-approximated integer took a non-integer value
        if self.form != "none":
            c["fact_form"] = self.form
            c["vals"] = enc([[ev(self.vt[r][k]) for k in range(self.K)] for r in range(self.N)])
            c["vvalid"] = [[ev(self.vvalid[r][k]) for k in range(self.K)] for r in range(self.N)]
            c["hidden_nan"] = [[ev(self.hidden_nan[r][k]) for k in range(self.K)] for r in range(self.N)]
            c["K"] = self.K
            c["force2d"] = bool(self.cfg.get("force2d"))
        c["wform"] = self.wform
        if self.cfg.get("wdtype"):
            c["wdtype"] = self.cfg["wdtype"]
        if self.wform in ("array", "pair"):
            c["w"] = enc([ev(t) for t in self.wt])
            c["wvalid"] = [ev(b) for b in self.wvalid]
            c["whidden_nan"] = [ev(b) for b in self.whidden_nan]
        elif self.wform == "scalar":
            c["w"] = enc(ev(self.wscalar))
        c["sentinel"] = ev(self.sentinel)
        return c


def fmt_value(fmt, data):
    if fmt == "nan":
        return float("nan")
    if fmt == "zero":
        return 0
    return (SInt(data.sentinel), False)


def call_aggregate(cube, mod, prefix, agg, fact, weights, ignore, rma, extra_kw=None):
    """Build the aggregate-function object of module `mod` (ffuncs / xfuncs) and calculate."""
    cls = getattr(mod, prefix + agg)
    if agg == "count":
        f = cls(weights, (extra_kw or {}).get("N"), ignore, rma)
    else:
        f = cls(fact, weights, ignore, rma)
    return f, cube.calculate([f])[0]


def split_result(res, fmt):
    if fmt == "pair":
        vals, valid = res
        return snp.asarray(vals), snp.asarray(valid)
    return snp.asarray(res), None


def compare(data, res, fmt, agg, ignore, ishape, what, conds, wsum_excl=None):
    """Append z3 conditions: result == oracle (missing mask and values) for every cell/column."""
    vals, valid = split_result(res, fmt)
    extras = data.extras
    sc_shape = tuple(x for e in extras for x in e)
    K = data.K if agg != "count" and data.form != "none" else 1
    kshape = (K,) if (agg != "count" and (K > 1 or data.cfg.get("force2d"))) else ()
    want_shape = sc_shape + tuple(ishape) + kshape
    if not want_shape:
        want_shape_alt = [(), (1,)]
    else:
        want_shape_alt = [want_shape]
    if tuple(vals.o.shape) not in want_shape_alt:
        conds.append(("shape", z3.BoolVal(False), "%s: result shape %r, expected %r" % (what, tuple(vals.o.shape), want_shape)))
        return
    flatv = vals.o.reshape(want_shape) if want_shape else vals.o.reshape(())
    flatb = None if valid is None else (valid.o.reshape(want_shape) if want_shape else valid.o.reshape(()))
    for pos in itertools.product(*[range(x) for x in sc_shape]):
        subs, p = [], 0
        for e in extras:
            subs.append(pos[p:p + len(e)])
            p += len(e)
        for cell in itertools.product(*[range(e) for e in ishape]):
            for k in range(K):
                missing, value, wsum = data.cell_oracle(agg, ignore, subs, cell, k)
                idx = pos + cell + ((k,) if kshape else ())
                got = flatv[idx]
                t, nan, inf = rparts(got)
                isnan = bt(nan)
                finite = z3.And(z3.Not(isnan), z3.Not(bt(inf)))
                if data.cfg.get("residue"):
                    # rounding-residue mode: only the set of missing cells is compared
                    c = (isnan == missing) if fmt == "nan" else ((bt(flatb[idx]) == z3.Not(missing)) if fmt == "pair" else z3.BoolVal(True))
                elif fmt == "nan":
                    c = z3.If(missing, isnan, z3.And(finite, t == value))
                elif fmt == "pair":
                    v = bt(flatb[idx])
                    c = z3.And(v == z3.Not(missing),
                               z3.If(missing, z3.And(finite, t == z3.ToReal(data.sentinel)), z3.And(finite, t == value)))
                else:
                    c = z3.If(missing, z3.And(finite, t == 0), z3.And(finite, t == value))
                conds.append((what, c, "%s cell %r" % (what, idx)))


def assert_all(eng, conds, kind):
    """One VC per output cell (small VCs keep the division-by-sum obligations tractable)."""
    for _, c, where in conds:
        eng.assert_(c, "%s [%s]" % (kind, where))
