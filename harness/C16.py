"""C16 - pooled evaluation is schedule-independent.

What symbolic execution decides here (DESIGN.md C16): the pooled branch of calculate() is run with a
recording pool stub; tasks execute one after another while the shim records, per task, the memory
cells of every pre-existing buffer that the task reads or writes, and attribute writes on the shared
cube / aggregate objects.  Pairwise conflict-freedom of the recorded footprints (for all data on the
path) implies that every interleaving yields the serial result (tasks commute).  A conflict is
replayed on the real build by a deterministic interleaving scheduler; only an observable divergence
from the serial result is reported."""
import gc
import itertools
import types

import numpy as rnp
import z3

from harness import aggs, C03, C05
from symex import loader, snp
from symex import scalars as S
from symex.scalars import SReal
from symex.engine import Violation, Abort, Inconclusive, HarnessError

ID = "C16"
LEVEL = "other"
EXPLANATION = ("bounded symbolic conflict analysis of the real task code (cell-level read/write footprints of each pooled task, "
               "for all data on every path) plus the trusted commutation argument (conflict-free tasks commute, so every interleaving "
               "yields the serial result); the pooled result is also compared with the direct oracle for all data")
REWRITES = loader.REWRITES
STUBS = C03.STUBS + ["pool = recording stub: tasks run one after another; per-task cell-level read/write footprints on buffers allocated before pool.map",
                     "diagnostics named out of scope by the property are allow-listed: tracing, _tracing, intersection_data_points"]
ASSUMPTIONS = C03.ASSUMPTIONS + ["non-atomicity inside one NumPy call on the same cell cannot arise without a recorded conflict",
                                 "shared Python containers other than instrumented arrays and the attributes of the shared cube/aggregate objects are outside the claim",
                                 "the real pool's worker management is outside the claim", "pooled mode forced by setting cube.parallel"]
ENGINE_OPTS = C03.ENGINE_OPTS
ALLOW = {"tracing", "_tracing", "intersection_data_points"}
MAX_REPLAYS_PER_KIND = 4
# (a recorded *conflict* that no interleaving can make observable is a benign race: such cases carry
# unobservable_ok; every other kind of candidate must reproduce like anywhere else)


def bounds(tier):
    return {"scaffolds": "(3,), (2,)+(2,), (3,)+plain dimension" if tier == "quick" else "(3,), (2,)+(2,), (3,)+plain, (2,3), plain+(3,)", "N": 2, "E": 2,
            "aggregates": "count, valid_count, sum, mean singly and in pairs", "cube types": "ccube, xcube"}


def configs(tier, seed):
    out = []
    scaffolds = [[[3]], [[2], [2]], [[3], []]]
    if tier == "thorough":
        scaffolds += [[[2, 3]], [[], [3]]]
    pairs = [["count"], ["sum"], ["mean"], ["valid_count"], ["sum", "mean"], ["count", "valid_count"]]
    i = seed
    for dims in scaffolds:
        for side in ("ccube", "xcube"):
            for aggl in pairs:
                i += 1
                if tier == "quick" and len(dims) > 1 and (len(aggl) > 1 or (dims == [[3], []] and aggl[0] not in ("sum", "count"))):
                    continue
                out.append(C03._base(2, dims, 2, [i % 2] * len(dims), "sum", weights=["none", "array"][i % 2], ignore=bool((i // 2) % 2),
                                     fmt="nan", side=side, aggl=aggl, fact="nan"))
    # several fact columns: the array cube then works per bin with row masks instead of bincount
    for side in ("ccube", "xcube"):
        for aggl in (["sum"], ["mean"], ["valid_count"]) if tier == "thorough" or side == "xcube" else (["mean"],):
            i += 1
            out.append(C03._base(2, [[3]], 2, [i % 2], "sum", weights=["none", "array"][i % 2], ignore=bool((i // 2) % 2),
                                 fmt="nan", side=side, aggl=aggl, fact="nan", K=2))
    # the array-cube-only statistics of C18, pooled: categories and validity bits are structure (forked per path, as in
    # C18); the pooled result must be conflict-free and equal the serial result of fresh objects
    for aggl, K, wf in ((["stddev"], 1, "array"), (["quantile"], 1, "none"), (["max", "min"], 1, "none"),
                        (["covariance"], 2, "none"), (["corrcoef", "stddev"], 2, "none"), (["quantile"], 1, "array")):
        i += 1
        if tier == "quick" and aggl == ["quantile"] and wf == "array":
            continue
        extra = {"wvals": ["1", "2"]} if wf != "none" else {}
        out.append(C03._base(2, [[3]], 2, [0], "sum", weights=wf, ignore=bool(i % 2), fmt="nan", side="xcube", aggl=aggl,
                             fact="nan", K=K, struct=True, **extra))
    return out


class Recorder:
    def __init__(self):
        self.task = None
        self.log = {}
        self.pre = set()
        self.attr_writes = {}

    def touch(self, o, kind):
        if self.task is None:
            return
        ad = snp.addresses(o) & self.pre
        if ad:
            self.log.setdefault(self.task, {"r": set(), "w": set()})[kind].update(ad)


def reachable_arrays(roots, depth=5):
    seen = set()
    out = []
    frontier = list(roots)
    for _ in range(depth):
        nxt = []
        for obj in frontier:
            if id(obj) in seen:
                continue
            seen.add(id(obj))
            if isinstance(obj, snp.ndarray):
                out.append(obj)
                continue
            if isinstance(obj, (str, bytes, int, float, type, types.ModuleType, types.FunctionType)) and not isinstance(obj, types.FunctionType):
                continue
            if isinstance(obj, types.FunctionType):
                nxt.extend(c.cell_contents for c in (obj.__closure__ or ()) if _has(c))
                continue
            if isinstance(obj, (list, tuple, set)):
                nxt.extend(obj)
            elif isinstance(obj, dict):
                nxt.extend(obj.values())
            elif hasattr(obj, "__dict__"):
                nxt.extend(vars(obj).values())
        frontier = nxt
    return out


def _cell_ids(f):
    out = {}
    for name, cell in zip(f.__code__.co_freevars, f.__closure__ or ()):
        try:
            out[name] = id(cell.cell_contents)
        except ValueError:
            out[name] = None
    return out


def _cell_changes(before, after):
    return {k: (before.get(k), v) for k, v in after.items() if before.get(k) != v}


def _has(cell):
    try:
        cell.cell_contents
        return True
    except ValueError:
        return False


def make_pool(rec, shared):
    class RecPool:
        def __init__(self, n=None):
            pass

        def map_async(self, f, items, chunksize=None, callback=None, error_callback=None):
            # tasks run at once (recorded like those of map); the handle behaves as multiprocessing.pool.MapResult
            try:
                value, exc = self.map(f, items, chunksize), None
            except Exception as ex:
                value, exc = None, ex

            class Handle:
                def wait(self, timeout=None):
                    return None

                def ready(self):
                    return True

                def successful(self):
                    return exc is None

                def get(self, timeout=None):
                    if exc is not None:
                        raise exc
                    return value
            return Handle()

        def map(self, f, items, chunksize=None):
            items = list(items)
            # multiprocessing.pool.Pool.map: tasks are cut into chunks of `chunksize` items; a chunk size of 0 yields
            # no chunk at all (nothing runs, no error), a negative one is refused by itertools.islice
            if chunksize is not None:
                if isinstance(chunksize, S.SInt):
                    chunksize = int(chunksize)
                if chunksize < 0:
                    raise ValueError("Stop argument for islice() must be None or an integer: 0 <= x <= sys.maxsize.")
                if chunksize == 0:
                    items = []
            arrays = reachable_arrays([f] + list(shared))
            rec.pre = set()
            for a in arrays:
                base = a.o
                while isinstance(base.base, rnp.ndarray):
                    base = base.base
                rec.pre |= snp.addresses(base)
            excs = []
            for t, it_ in enumerate(items):
                # shared objects: the cube and aggregate objects, plus instances of the library's own classes that the
                # task function holds in its closure (a helper object created once per calculate() is shared by all tasks)
                held = []
                for cell in (f.__closure__ or ()):
                    try:
                        o_ = cell.cell_contents
                    except ValueError:
                        continue
                    for x_ in (o_ if isinstance(o_, (list, tuple)) else [o_]):
                        if hasattr(x_, "__dict__") and not isinstance(x_, type) and not callable(x_) \
                                and str(getattr(type(x_), "__module__", "")).split(".")[0] == "catii" and all(x_ is not y_ for y_ in shared):
                            held.append(x_)
                before = [(obj, dict((k, id(v)) for k, v in vars(obj).items())) for obj in list(shared) + held if hasattr(obj, "__dict__")]
                cells_before = _cell_ids(f)
                rec.task = t
                try:
                    f(it_)
                except (Violation, Abort, Inconclusive, HarnessError):
                    raise
                except Exception as ex:
                    excs.append(ex)
                finally:
                    rec.task = None
                for obj, snap in before:
                    for k, v in vars(obj).items():
                        if k not in ALLOW and snap.get(k) != id(v):
                            rec.attr_writes.setdefault(t, set()).add("%s.%s" % (type(obj).__name__, k))
                # variables of the enclosing calculate() frame rebound by the task (shared by all tasks)
                for name, (b, a) in _cell_changes(cells_before, _cell_ids(f)).items():
                    if name not in ALLOW:
                        rec.attr_writes.setdefault(t, set()).add("closure variable %s" % name)
            if excs:
                raise excs[0]
            return []

        def close(self):
            pass

        def __enter__(self):
            return self

        def __exit__(self, *a):
            return False
    return RecPool


def structure_inputs(eng, data):
    """Library inputs with categories and validity bits decided per path (fact values and weights stay symbolic)."""
    N, K = data.N, data.K
    fl = rnp.dtype(float)
    dense = []
    for d, extra in enumerate(data.extras):
        o = rnp.empty((N,) + tuple(extra), dtype=object)
        for sub, cs in sorted(data.cats[d].items()):
            for r, c_ in enumerate(cs):
                o[(r,) + tuple(sub)] = eng.concretize(c_)
        dense.append(snp.ndarray(o, rnp.int64))
    fvalid = [[eng.branch(data.vvalid[r][k]) for k in range(K)] for r in range(N)]
    shape = (N, K) if K > 1 else (N,)
    fo = rnp.empty(N * K, dtype=object)
    for r in range(N):
        for k in range(K):
            fo[r * K + k] = SReal(data.vt[r][k], False, False) if fvalid[r][k] else float("nan")
    fact = snp.ndarray(fo.reshape(shape), fl)
    weights = None
    if data.wform == "array":
        wvalid = [eng.branch(b) for b in data.wvalid]
        wo = rnp.empty(N, dtype=object)
        for r in range(N):
            wo[r] = SReal(data.wt[r], False, False) if wvalid[r] else float("nan")
        weights = snp.ndarray(wo, fl)
    elif data.wform != "none":
        raise HarnessError("C16 structure inputs: weight form %r" % data.wform)
    return fact, weights, dense


def explore(cfg, eng, ctx):
    C = aggs.catii("summary")
    ignore, side, aggl = cfg["ignore"], cfg["side"], cfg["aggl"]
    D = len(cfg["dims"])
    ishape = tuple([cfg["E"]] * D)
    mod, prefix = (C.ffuncs, "ffunc_") if side == "ccube" else (C.xfuncs, "xfunc_")

    def path():
        data = aggs.Data(eng, cfg)
        info = {"conflict": None}
        # readable, distinguishing counterexample data: everything valid, distinct values, varied categories
        if data.form != "none":
            for r in range(data.N):
                for k in range(data.K):
                    eng.prefer.append(z3.And(data.vvalid[r][k], data.vt[r][k] == r + 1 + 3 * k))
        if data.wform in ("array", "pair"):
            eng.prefer += [b for b in data.wvalid]
            if hasattr(data, "wsel"):
                for r, (a, b) in enumerate(data.wsel):      # weights 1 and 3 alternating (never 0)
                    eng.prefer += [a, b if r % 2 else z3.Not(b)]
        for d, per in enumerate(data.cats):
            for j, (sub, cs) in enumerate(sorted(per.items())):
                for r, c_ in enumerate(cs):
                    eng.prefer.append(c_ == (r + j + d) % 2)

        def builder(model):
            c = data.case(model)
            c.update(kind="pool", ignore=ignore, fmt="nan", commons=cfg["commons"], ishape=list(ishape), side=side, aggl=aggl,
                     conflict=info["conflict"])
            if info["conflict"]:
                c["unobservable_ok"] = True
            return c
        ctx.case_builder = builder
        struct = bool(cfg.get("struct"))
        if struct:
            fact, weights, dense = structure_inputs(eng, data)
        else:
            fact, weights = data.fact(), data.weights()

        def mkfs():
            out = []
            for agg in aggl:
                cls = getattr(mod, prefix + agg)
                if agg == "count":
                    out.append(cls(weights, None, ignore, float("nan")))
                elif agg in ("max", "min"):
                    out.append(cls(fact, ignore, float("nan")))
                elif agg == "quantile":
                    out.append(cls(fact, 0.5, weights, ignore, float("nan")))
                else:
                    out.append(cls(fact, weights, ignore, float("nan")))
            return out
        rec = Recorder()
        try:
            if side == "ccube":
                cube = C.ccubes.ccube(data.index_dims(C, cfg["commons"]), interacting_shape=ishape)
            elif struct:
                cube = C.xcubes.xcube(dense, interacting_shape=ishape)
            else:
                cube = C.xcubes.xcube(data.dense_dims(), interacting_shape=ishape)
            fs = mkfs()
            Pool = make_pool(rec, [cube] + fs)
            if side == "ccube":
                C.ccubes.multiprocessing = types.SimpleNamespace(pool=types.SimpleNamespace(ThreadPool=Pool))
            else:
                cube.pool_class = Pool
            cube.parallel = True
            snp._HOOKS["touch"] = rec.touch
            try:
                res = cube.calculate(fs)
            finally:
                snp._HOOKS["touch"] = None
        except (Violation, Abort, Inconclusive, HarnessError):
            raise
        except Exception as ex:
            eng.assert_(False, "pooled calculate raised %s: %s" % (type(ex).__name__, str(ex)[:100]))
            return
        tasks = sorted(rec.log)
        ctx.notes["tasks_recorded"] = ctx.notes.get("tasks_recorded", 0) + len(tasks)
        ctx.notes["cells_written"] = ctx.notes.get("cells_written", 0) + sum(len(rec.log[t]["w"]) for t in tasks)
        conflict = None
        for a, b in itertools.combinations(tasks, 2):
            ww = rec.log[a]["w"] & rec.log[b]["w"]
            wr = (rec.log[a]["w"] & rec.log[b]["r"]) | (rec.log[a]["r"] & rec.log[b]["w"])
            if ww or wr:
                conflict = dict(tasks=[a, b], write_write=len(ww), write_read=len(wr))
                break
        if conflict is None and rec.attr_writes:
            t = sorted(rec.attr_writes)[0]
            conflict = dict(tasks=[t], attributes=sorted(rec.attr_writes[t]))
        if conflict is not None:
            info["conflict"] = conflict
            eng.assert_(False, "pooled tasks conflict on shared state: %r" % (conflict,))
            return
        if struct:
            # conflict-free: tasks commute; the pooled branch must return what the serial branch returns (fresh objects)
            try:
                serial = C.xcubes.xcube(dense, interacting_shape=ishape).calculate(mkfs())
            except (Violation, Abort, Inconclusive, HarnessError):
                raise
            except Exception as ex:
                eng.assert_(False, "serial calculate raised %s: %s" % (type(ex).__name__, str(ex)[:100]))
                return
            from harness import C05
            for agg, r, s_ in zip(aggl, res, serial):
                eng.assert_(C05.same_outputs(r, s_, "nan"), "pooled %s differs from the serial result" % agg)
            eng.vcs += len(list(itertools.combinations(tasks, 2)))
            ctx.end_path()
            return
        # conflict-free: tasks commute; the (sequentially executed) pooled result must be the right one for all data
        for agg, r in zip(aggl, res):
            cs = []
            aggs.compare(data, r, "nan", agg, ignore, ishape, side, cs)
            aggs.assert_all(eng, cs, "pooled %s differs from the direct per-cell computation" % agg)
        eng.vcs += len(list(itertools.combinations(tasks, 2)))
        ctx.end_path()

    eng.explore(path)


def functions():
    return loader.function_info("ccubes.py", ["ccube.calculate", "ccube.product"]) + loader.function_info("xcubes.py", ["xcube.calculate", "xcube.product"])
