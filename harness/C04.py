"""C04 - the missing-cell rule and the three report formats agree (both cube types)."""
import itertools

import numpy as rnp
import z3

from harness import aggs, C03
from symex import loader
from symex.engine import Violation, Abort, Inconclusive, HarnessError
from symex.scalars import rparts, bt


def teq(a, b):
    """a == b, decided structurally when the two terms are the same AST."""
    return z3.BoolVal(True) if z3.eq(z3.simplify(a), z3.simplify(b)) else a == b

ID = "C04"
LEVEL = "model_checking"
REWRITES = loader.REWRITES
STUBS = C03.STUBS
ASSUMPTIONS = C03.ASSUMPTIONS + ["the (sentinel, False) format uses a symbolic integer sentinel in [-1000, 1000]", "rounding-residue configurations: every float array subtraction is perturbed by a solver-chosen |r| <= 1e-12 and only the set of missing cells is compared",
                                 "excluded as the property says: valid_count with a plain replacement value under propagation"]
ENGINE_OPTS = C03.ENGINE_OPTS
FMTS = ["nan", "pair", "zero"]


def bounds(tier):
    return {"N": 3 if tier == "quick" else "3..4", "D": "1 (one 2-dimension configuration per aggregate)", "E": 2, "K": "1..2",
            "formats": "all three on the same symbolic data in one path", "policies": "both", "weights": "none/scalar/array/pair",
            "fact forms": "NaN-marked, (values, validity) float, (values, validity) int"}


def configs(tier, seed):
    out = []
    i = seed
    for agg in C03.AGGS:
        for wf in ("none", "scalar", "array", "pair"):
            for ignore in (False, True):
                facts = ["nan", "pair", "intpair"] if tier == "thorough" else [["nan", "pair", "intpair"][i % 3]]
                for fact in facts:
                    for K in ((1, 2) if tier == "thorough" else (1 + (i // 3) % 2,)):
                        i += 1
                        if agg == "count" and (K != 1 or fact != facts[0]):
                            continue
                        for side in ("ccube", "xcube"):
                            out.append(C03._base(3, [[]], 2, [i % 2], agg, weights=wf, ignore=ignore, fact=fact, K=K, side=side))
        out.append(C03._base(2, [[], []], 2, [0, 1], agg, weights="array", ignore=False, side="ccube"))
        out.append(C03._base(2, [[], []], 2, [1, 0], agg, weights="array", ignore=True, side="xcube"))
        # rounding-residue mode: the marginal differencing of float regions is exact only up to a bounded perturbation
        # (|r| <= 1e-12 per subtraction); the set of missing cells must not depend on it
        if agg in ("mean", "count", "sum"):
            for ignore in (False, True):
                out.append(C03._base(3, [[]], 2, [0], agg, weights="array", ignore=ignore, fact="nan", K=1, side="ccube", residue="1e-12"))
            out.append(C03._base(4, [[]], 3, [0], agg, weights="array", ignore=True, fact="nan", K=1, side="ccube", residue="1e-12"))
            out.append(C03._base(2, [[], []], 2, [1, 0], agg, weights="pair", ignore=False, fact="nan", K=1, side="ccube", residue="1e-12"))
        if tier == "thorough":
            out.append(C03._base(4, [[]], 2, [0], agg, weights="pair", ignore=False, side="ccube"))
            out.append(C03._base(4, [[]], 2, [1], agg, weights="pair", ignore=False, side="xcube"))
            # fully real (not palette) weights: the only place where the isclose band of adjust_zeros can matter
            for side in ("ccube", "xcube"):
                for ignore in (False, True):
                    out.append(C03._base(3, [[]], 2, [1], agg, weights="array", ignore=ignore, fact="nan", K=1, side=side, wreal=True))
    return out


def explore(cfg, eng, ctx):
    C = aggs.catii("summary")
    agg, ignore, side = cfg["agg"], cfg["ignore"], cfg["side"]
    fmts = [f for f in FMTS if not (agg == "valid_count" and f == "zero" and not ignore)]

    from symex import snp as _snp
    if cfg.get("residue"):
        fmts = [f for f in fmts if f != "zero"]

    def path():
        _snp.RESIDUE[0] = cfg.get("residue")
        try:
            return path_()
        finally:
            _snp.RESIDUE[0] = None

    def path_():
        data = aggs.Data(eng, cfg)
        cur = {"fmt": fmts[0]}
        if cfg.get("wreal") and data.wt is not None:
            # known findings F16 / F16b: exclude exactly their regions (a cell whose valid weights sum to a non-zero
            # value inside numpy.isclose's band); every other disagreement is still a violation
            band = None
            if "F16-isclose-band" in ctx.excl and agg == "mean" and side == "ccube":
                band = "mean"
            if "F16b-isclose-band-valid-count-plain-zero" in ctx.excl and agg == "valid_count" and ignore and "zero" in fmts:
                band = "valid_count"
            if band:
                for cell in itertools.product(*[range(e) for e in C03.ishape_of(cfg)]):
                    for k in range(data.K):
                        _, _, wsum = data.cell_oracle(band, ignore, [() for _ in cfg["dims"]], cell, k)
                        eng.assume(z3.Or(wsum <= 0, wsum > z3.RealVal("1.0000001e-8")))

        def builder(model):
            c = data.case(model)
            if c is None:
                return None
            c.update(kind="aggs", agg=agg, ignore=ignore, fmt=cur["fmt"], commons=cfg["commons"], dense_dtype=cfg["dtype"],
                     ishape=list(C03.ishape_of(cfg)), sides=[side])
            if cfg.get("residue"):
                # a rounding residue is not an input: the replay searches non-dyadic rescalings of the weights for one that
                # makes the difference observable on the real build; none found = not observable = no violation
                c.update(residue=cfg["residue"], unobservable_ok=True)
            return c
        ctx.case_builder = builder
        fact, weights = data.fact(), data.weights()
        results = {}
        for fmt in fmts:
            cur["fmt"] = fmt
            rma = aggs.fmt_value(fmt, data)
            try:
                if side == "ccube":
                    cube = C.ccubes.ccube(data.index_dims(C, cfg["commons"]), interacting_shape=C03.ishape_of(cfg))
                    f, res = aggs.call_aggregate(cube, C.ffuncs, "ffunc_", agg, fact, weights, ignore, rma)
                else:
                    cube = C.xcubes.xcube(data.dense_dims(rnp.dtype(cfg["dtype"])), interacting_shape=C03.ishape_of(cfg))
                    f, res = aggs.call_aggregate(cube, C.xfuncs, "xfunc_", agg, fact, weights, ignore, rma)
            except (Violation, Abort, Inconclusive, HarnessError):
                raise
            except Exception as ex:
                eng.assert_(False, "%s %s (%s format) raised %s: %s" % (side, agg, fmt, type(ex).__name__, str(ex)[:100]))
                return
            ish = tuple(int(x) for x in cube.interacting_shape)
            cs = []
            aggs.compare(data, res, fmt, agg, ignore, ish, side, cs)
            aggs.assert_all(eng, cs, "%s %s: %s format disagrees with the missing-cell rule / values" % (side, agg, fmt))
            results[fmt] = aggs.split_result(res, fmt)
        # cross-format consistency, stated directly
        if cfg.get("residue"):
            ctx.case_builder = None      # holding paths of the residue mode are not cross-validated (the residue is not an input)
            ctx.end_path()
            return
        if "nan" in results and "pair" in results:
            cur["fmt"] = "pair"
            vn, _ = results["nan"]
            vp, bp = results["pair"]
            cs = []
            for a, b, v in zip(vn.o.reshape(-1), vp.o.reshape(-1), bp.o.reshape(-1)):
                ta, na, _ = rparts(a)
                tb, nb, _ = rparts(b)
                cs.append(z3.And(bt(na) == z3.Not(bt(v)), z3.Implies(bt(v), teq(ta, tb)),
                                 z3.Implies(z3.Not(bt(v)), tb == z3.ToReal(data.sentinel))))
            eng.assert_(z3.And(*cs), "%s %s: NaN format and (values, validity) format describe different cells" % (side, agg))
        if "zero" in results and "pair" in results:
            cur["fmt"] = "zero"
            vz, _ = results["zero"]
            vp, bp = results["pair"]
            cs = []
            for a, b, v in zip(vz.o.reshape(-1), vp.o.reshape(-1), bp.o.reshape(-1)):
                ta, na, _ = rparts(a)
                tb, nb, _ = rparts(b)
                cs.append(z3.And(z3.Not(bt(na)), z3.If(bt(v), teq(ta, tb), ta == 0)))
            eng.assert_(z3.And(*cs), "%s %s: plain-replacement format differs from the (values, validity) format" % (side, agg))
        ctx.end_path()

    eng.explore(path)


functions = C03.functions
