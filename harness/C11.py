"""C11 - INDX files are byte-for-byte the documented layout (four obligations, see DESIGN.md)."""
import itertools

from harness import indx

ID = "C11"
LEVEL = "model_checking"
REWRITES = ["len/type/int/isinstance -> engine-aware versions"]
STUBS = __import__("harness.C10", fromlist=["STUBS"]).STUBS + ["opaque arrays of symbolic length (size-field obligation): tofile advances a symbolic position"]
ASSUMPTIONS = ["the specification encoder/decoder in harness/indx.py is written from the IndxIO class docstring alone",
               "index dimensions field is 0 for an index without entries (the only case the docstring leaves open; taken from the writer)",
               "structure bounds as C10; size-field obligation: up to 3 entries of any length below 2^32"]
ENGINE_OPTS = {"quick": dict(wall_s=900), "thorough": dict(wall_s=3000)}


def bounds(tier):
    return {"layout/decoder": "structures as C10", "foreign files": "index word in {1,2,4,8} x row-id word in {1,2,4,8}, values constrained to fit",
            "size field": "1..3 entries, each length symbolic in [0, 2^32)"}


def configs(tier, seed):
    out = []
    for s in indx.structures(tier, seed):
        out.append(dict(s, ob="layout"))
    small = indx.structures(tier, seed, small=True)
    for s in small:
        if tier == "quick" and (s["entries"], s["arity"]) not in ((0, 1), (1, 1), (2, 2)):
            continue
        for wi, wr in itertools.product((1, 2, 4, 8), repeat=2):
            if tier == "quick" and s["entries"] == 2 and (wi + wr + sum(s["lens"]) + seed) % 2:
                continue
            out.append(dict(s, ob="foreign", w_index=wi, w_rowid=wr))
    # foreign files whose row ids total more than the row-id word can count (the offsets must not be
    # accumulated in the row-id word): 1-byte words, 200 + 100 row ids
    out.append(dict(ob="foreign", entries=2, arity=1, lens=[200, 100], w_index=1, w_rowid=1, concrete_rows=True))
    out.append(dict(ob="foreign", entries=3, arity=1, lens=[100, 100, 100], w_index=2, w_rowid=1, concrete_rows=True))
    for ne in (1, 2, 3):
        out.append(dict(ob="size", entries=ne))
    return out


def explore(cfg, eng, ctx):
    if cfg["ob"] == "layout":
        indx.explore_layout(cfg, eng, ctx)
    elif cfg["ob"] == "foreign":
        indx.explore_foreign(cfg, eng, ctx)
    else:
        indx.explore_size(cfg, eng, ctx)


functions = indx.functions
