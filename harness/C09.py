"""C09 - sorted-set kernels never touch memory outside their buffers."""
from harness import kernels

ID = "C09"
LEVEL = "model_checking"
BOUNDSCHECK_BUILD = True
REWRITES = ["set_operations.pyx lowered line by line to Python; every memoryview access in a boundscheck(False) function carries the obligation 0 <= i < shape[0]"]
STUBS = ["kernel NumPy surface (empty/asarray/concatenate/array) over element lists"]
ASSUMPTIONS = ["operands are strictly increasing uint32 arrays", "operands longer than the cap are outside the claim",
               "source-level in-range indexing implies memory safety (Cython code generation trusted)",
               "replays run on a scratch build with boundscheck(True)"]
ENGINE_OPTS = {"quick": dict(wall_s=600), "thorough": dict(wall_s=3000)}
bounds = __import__("harness.C08", fromlist=["bounds"]).bounds


def configs(tier, seed):
    return [c for c in kernels.configs_for(tier, "C09")]


def explore(cfg, eng, ctx):
    kernels.explore(cfg, eng, ctx, strict=True)


functions = kernels.functions
