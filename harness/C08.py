"""C08 - sorted-set kernels compute exact set algebra (DESIGN.md section 5)."""
from harness import kernels

ID = "C08"
LEVEL = "model_checking"
REWRITES = ["set_operations.pyx lowered line by line to Python; C-typed locals coerced (int32/int64/uint32 wrap)"]
STUBS = ["kernel NumPy surface (empty/asarray/concatenate/array) over element lists; uninitialised memory = arbitrary values",
         "out-of-range memoryview read = arbitrary uint32, write dropped (memory safety itself is C09)"]
ASSUMPTIONS = ["operands are strictly increasing uint32 arrays (the documented precondition)",
               "operands longer than the cap are outside the claim",
               "Cython code generation for memoryview indexing is trusted"]
ENGINE_OPTS = {"quick": dict(wall_s=600), "thorough": dict(wall_s=3000)}


def bounds(tier):
    return {"two-way cap": 3 if tier == "quick" else 5, "wrapper cap": 2 if tier == "quick" else 3,
            "merge_many": "k<=3 cap 2" if tier == "quick" else "k<=4 cap 3",
            "magnitudes": "all of [0, 2^32-1] (solver variables)", "lengths": "every length tuple within the cap"}


def configs(tier, seed):
    return kernels.configs_for(tier, "C08")


def explore(cfg, eng, ctx):
    kernels.explore(cfg, eng, ctx, strict=False)


functions = kernels.functions

DUMP_VCS = {"quick": 2, "thorough": 1}


def cross_check(tier, had_violation, dumps=()):
    """Second solver: a sample of the discharged VCs is re-decided by cvc5."""
    from symex import second_solver
    out = {"cvc5": second_solver.redecide(list(dumps), limit=300)}
    if out["cvc5"]["sat"]:
        out["disagree"] = True
    return out
