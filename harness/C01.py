"""C01 - array -> inverted index -> array is lossless.

The *pattern* (shape, which cell holds which class of value, which options are on) is structure;
the *magnitudes* of the classes, of an absent common value and of mapping targets are solver
variables over all of int64, used as symbolic dictionary keys (DESIGN.md section 2.4)."""
import itertools

import numpy as rnp
import z3

from harness import cubes
from symex import loader, snp
from symex import scalars as S
from symex.engine import Violation, Abort, Inconclusive, HarnessError
from symex.scalars import SKey, SInt, it, bt

ID = "C01"
LEVEL = "model_checking"
REWRITES = loader.REWRITES
STUBS = ["NumPy shim (object arrays, shadow dtype/shape); NumPy 2 OverflowError for Python ints outside a dtype is a fork on the range predicate",
         "bincount of symbolic magnitudes = sparse view (distinct magnitudes, concrete counts)", loader.SUMMARY_STUB]
ASSUMPTIONS = ["class magnitudes are pairwise distinct and ascending in class order (patterns are enumerated over all labelled assignments, so this is no restriction for the exhaustive small patterns)",
               "magnitudes anywhere in int64; numpy.bincount(x) follows its allocation contract: max(x)+1 slots, empty result when that count wraps (int64 maximum), ValueError from 2^63 bytes, MemoryError from 2^47 bytes (no machine can allocate it), success below (a smaller allocation failing on a small machine is outside the claim)",
               "mapping targets pairwise distinct unless the pattern makes them equal (many-to-one); for the large (>8 cells) patterns targets are ascending in target order"]
ENGINE_OPTS = {"quick": dict(wall_s=1500), "thorough": dict(wall_s=3400)}
MAX_REPLAYS_PER_KIND = 4
I64 = (-(2 ** 63), 2 ** 63 - 1)


def bounds(tier):
    return {"patterns": "all onto assignments of <=3 cells 1-D (quick) / <=4 cells 1-D and 2x2 with <=3 classes (thorough), plus large patterns with 5-6 classes over 20 and 96 cells (both construction strategies, both sides of the strategy switch)",
            "options": "common omitted/present/absent x counts supplied (keys ascending, reversed or rotated) or not x mapping none/injective/many-to-one (incl. onto the common) x way back default dtype/explicit dtype/mapping",
            "magnitudes": "all of int64 (solver variables)"}


def _kv(x):
    """Key / common value as the scalar it holds (a NumPy scalar handed in by the caller stays one in the index)."""
    return x.scalar_value() if isinstance(x, snp.ndarray) else x


def _onto(n, k):
    for f in itertools.product(range(k), repeat=n):
        if len(set(f)) == k:
            yield list(f)


def configs(tier, seed):
    out = []
    small = []
    maxn = 3 if tier == "quick" else 4
    for n in range(0, maxn + 1):
        for k in range(1, min(n, 3) + 1) if n else [0]:
            for pat in (_onto(n, k) if n else [[]]):
                small.append(([n], pat, k))
    if tier == "thorough":
        for k in range(1, 4):
            for pat in _onto(4, k):
                small.append(([2, 2], pat, k))
    else:
        small += [([2, 2], [0, 1, 1, 0], 2), ([2, 2], [0, 1, 2, 0], 3), ([1, 2], [0, 0], 1), ([0, 2], [], 0)]
    # skewed counts: two classes that a many-to-one mapping merges outnumber the single most frequent class
    small += [([7], [0, 0, 1, 1, 2, 2, 2], 3), ([7], [2, 0, 2, 1, 2, 0, 1], 3), ([5, 2], [2, 2, 2, 2, 0, 0, 0, 1, 1, 1], 3)]
    large = []
    p96 = [0] * 96
    for i, pos in enumerate((5, 17, 50, 95)):
        p96[pos] = i + 1
    large.append(([96], p96, 5))                       # row-scan path: 5 classes, <5% uncommon
    p96b = list(p96)
    p96b[60] = 5
    large.append(([48, 2], p96b, 6))                   # 2-D row-scan path
    p20 = [i % 5 for i in range(20)]
    large.append(([20], p20, 5))                       # >=5 classes but dense -> where path
    p20b = [0] * 14 + [1, 2, 3, 4, 5, 1]
    large.append(([10, 2], p20b, 6))
    opts = []
    for common in ("omit", "present", "absent"):
        for counts in (False, True):
            for mapping in ("none", "inj", "m2o", "m2o_common", "all_one"):
                for back in ("default", "dtype", "mapping"):
                    opts.append((common, counts, mapping, back))
    i = seed
    for shape, pat, k in small:
        for o in opts:
            i += 1
            if tier == "quick" and i % 5 and not (o[0] == "omit" and o[2] in ("m2o", "m2o_common") and o[3] == "dtype"):
                continue
            common, counts, mapping, back = o
            if k == 0 and common == "omit":
                continue        # documented: no values and no common value (an empty mapping gives no hint) -> ValueError
            if k == 0 and common == "present":
                continue
            if mapping in ("m2o", "m2o_common") and k < 2:
                continue
            if mapping == "all_one" and k < 1:
                continue
            out.append(dict(shape=shape, pattern=pat, k=k, common=common, counts=counts, mapping=mapping, back=back))
    for shape, pat, k in large:
        for o in opts:
            i += 1
            common, counts, mapping, back = o
            if tier == "quick" and (i % 4) and not (mapping == "m2o" and back == "dtype") and not (common == "absent" and mapping == "none" and back == "dtype" and not counts):
                continue
            out.append(dict(shape=shape, pattern=pat, k=k, common=common, counts=counts, mapping=mapping, back=back))
    # caller-supplied counts whose keys are NOT in ascending order (a Counter, first-appearance order): every strategy
    for shape, pat, k in large + [([3], [0, 1, 2], 3), ([7], [2, 0, 2, 1, 2, 0, 1], 3), ([2, 2], [0, 1, 2, 0], 3)]:
        for corder in ("rev", "rot"):
            for common, mapping, back in (("omit", "none", "default"), ("present", "none", "dtype"), ("absent", "inj", "default"), ("omit", "m2o", "dtype")):
                i += 1
                if tier == "quick" and len(pat) > 8 and (i % 2) and not (common == "omit" and mapping == "none"):
                    continue
                out.append(dict(shape=shape, pattern=pat, k=k, common=common, counts=True, mapping=mapping, back=back, corder=corder))
    # caller-supplied counts and common value given as NumPy scalars (what numpy.unique(..., return_counts=True) hands out)
    for shape, pat, k in (([3], [0, 1, 0], 2), ([2, 2], [0, 1, 1, 0], 2)):
        for common in ("present", "omit"):
            for back in ("default", "dtype"):
                out.append(dict(shape=shape, pattern=pat, k=k, common=common, counts=True, mapping="none", back=back, npkeys=True))
    return out


def explore(cfg, eng, ctx, only=None):
    C = cubes.catii("summary")
    shape, pat, k = tuple(cfg["shape"]), cfg["pattern"], cfg["k"]
    ncells = len(pat)

    def path():
        lo, hi = I64
        d = [z3.Int("d%d" % i) for i in range(k)]
        for i, x in enumerate(d):
            eng.assume(x >= lo, x <= hi)
            if i:
                eng.assume(d[i - 1] < x)
        # counterexamples and replayed samples prefer small magnitudes (a replay of numpy.bincount allocates
        # max + 1 slots); verdicts are not affected
        for x in d:
            eng.prefer.append(z3.And(x > -2 ** 20, x < 2 ** 20))
        cabs = z3.Int("c_absent")
        eng.assume(cabs >= lo, cabs <= hi, *[cabs != x for x in d])
        # which class is the (present) common value: the last class (rare) -- structure
        present_class = k - 1 if k else None
        if cfg["common"] == "omit":
            common_in = None
            common_t = None
        elif cfg["common"] == "present":
            common_in = SKey(d[present_class])
            common_t = d[present_class]
        else:
            common_in = SKey(cabs)
            common_t = cabs
        # mapping
        mp = cfg["mapping"]
        tvars = []
        target_of = None
        mapping = None
        if mp != "none":
            if mp == "inj":
                cls_t = list(range(k))
            elif mp == "m2o":
                cls_t = [0, 0] + list(range(1, k - 1))
            elif mp == "m2o_common":
                cls_t = list(range(k - 1)) + [0] if k >= 2 else [0]
            else:
                cls_t = [0] * k
            nt = (max(cls_t) + 1) if cls_t else 0
            if common_in is not None and cfg["common"] == "absent":
                cls_c = nt if mp != "all_one" else 0
                nt = max(nt, cls_c + 1)
            tvars = [z3.Int("t%d" % j) for j in range(nt)]
            for j, t in enumerate(tvars):
                eng.assume(t >= lo, t <= hi)
                for t2 in tvars[:j]:
                    eng.assume(t != t2)
                if j and ncells > 8:
                    eng.assume(tvars[j - 1] < t)      # large patterns: targets ascending (bounds the orderings explored)
            mapping = {SKey(d[i]): SKey(tvars[cls_t[i]]) for i in range(k)}
            if common_in is not None and cfg["common"] == "absent":
                mapping[common_in] = SKey(tvars[cls_c])
            target_of = lambda i: tvars[cls_t[i]]
        final = (lambda i: target_of(i)) if target_of else (lambda i: d[i])
        counts = None
        if cfg["counts"]:
            order = list(range(k))
            if cfg.get("corder") == "rev":
                order.reverse()
            elif cfg.get("corder") == "rot":
                order = order[1:] + order[:1]
            counts = {SKey(d[i]): pat.count(i) for i in order}
        if cfg.get("npkeys"):
            # the same values as NumPy int64 scalars
            np_ = lambda key: snp.mkscalar(key, rnp.dtype(rnp.int64))
            counts = {np_(key): c for key, c in counts.items()}
            if common_in is not None:
                common_in = np_(common_in)
        o = rnp.empty(ncells, dtype=object)
        for p, cl in enumerate(pat):
            o[p] = SKey(d[cl])
        values = snp.ndarray(o.reshape(shape), rnp.int64)
        vsnap = values.o.copy()
        # way back
        uvars = []
        back_map = None

        def builder(model):
            ev = lambda t: model.eval(t, model_completion=True).as_long()
            return dict(kind="roundtrip", shape=list(shape), pattern=pat, d=[ev(x) for x in d], common=None if common_t is None else ev(common_t),
                        npkeys=bool(cfg.get("npkeys")), counts=cfg["counts"], corder=cfg.get("corder"), mapping=None if mapping is None else [[ev(it(a)), ev(it(b))] for a, b in mapping.items()],
                        back=cfg["back"], u=[ev(u) for u in uvars])
        ctx.case_builder = builder
        try:
            ix = C.iindexes.iindex.from_array(values, counts=counts, common=common_in, mapping=mapping)
            finals_present = []
            for key in dict.keys(ix):
                finals_present.append(key[0])
            finals_present.append(ix.common)
            if cfg["back"] == "mapping":
                back_map = {}
                for v in finals_present:
                    u = z3.Int("u%d" % len(uvars))
                    eng.assume(u >= lo, u <= hi)
                    if uvars and ncells > 8:
                        eng.assume(uvars[-1] < u)
                    uvars.append(u)
                    back_map[v] = SKey(u)
                out = ix.to_array(mapping=back_map)
            elif cfg["back"] == "dtype":
                out = ix.to_array(dtype=rnp.int64)
            else:
                out = ix.to_array()
        except (Violation, Abort, Inconclusive, HarnessError):
            raise
        except Exception as ex:
            eng.assert_(False, "round trip raised %s: %s" % (type(ex).__name__, str(ex)[:120]))
            return
        out = snp.asarray(out)
        if tuple(out.o.shape) != shape:
            eng.assert_(False, "round trip changed the shape: %r -> %r" % (shape, tuple(out.o.shape)))
            return
        conds = []
        flat = out.o.reshape(-1)
        for p, cl in enumerate(pat):
            want = final(cl)
            if back_map is not None:
                # the value the back mapping assigns to this cell's (mapped) value
                w = None
                for v, u in back_map.items():
                    c = it(v) == want
                    w = it(u) if w is None else z3.If(c, it(u), w)
                want = w
            conds.append(it(flat[p]) == want)
        if only is None:
            eng.assert_(z3.And(*conds) if conds else True, "array -> index -> array differs from the (mapped) input")
        # the index itself: well-formed, and a library-chosen common value is a most frequent one
        wf = [z3.BoolVal(isinstance(ix.shape, tuple) and tuple(ix.shape) == shape)]
        for key, arr in dict.items(ix):
            wf.append(bt(S.e_ne(_kv(key[0]), _kv(ix.common))))
            wf.append(z3.BoolVal(not isinstance(key[0], snp.ndarray)))      # coordinates are plain ints, never NumPy scalars (validate())
            okarr = isinstance(arr, snp.ndarray) and arr.d == rnp.dtype(rnp.uint32) and arr.o.ndim == 1
            wf.append(z3.BoolVal(bool(okarr)))
            if okarr:
                n = arr.n if arr.n is not None else arr.o.shape[0]
                wf.append(bt(S.e_lt(0, n)))
                for j in range(1, arr.o.shape[0]):
                    wf.append(z3.Implies(bt(arr.live(j)), it(arr.o[j - 1]) < it(arr.o[j])))
        if only is None:
            eng.assert_(z3.And(*wf), "index built from an array is not well-formed")
        if cfg["common"] == "omit" and ncells:
            cnt = {}
            for cl in pat:
                cnt[cl] = cnt.get(cl, 0) + 1
            # counts per final value (many-to-one merges)
            fc = []
            for cl in cnt:
                fc.append(z3.Sum([z3.If(final(c2) == final(cl), cnt[c2], 0) for c2 in cnt]))
            mine = z3.Sum([z3.If(final(c2) == it(_kv(ix.common)), cnt[c2], 0) for c2 in cnt])
            eng.assert_(z3.And([mine >= x for x in fc]), "library-chosen common value is not a most frequent value")
        eng.assert_(z3.BoolVal(all(a is b for a, b in zip(vsnap.reshape(-1), values.o.reshape(-1)))), "from_array changed its input array")
        ctx.end_path()

    eng.explore(path)


def functions():
    return loader.function_info("iindexes.py", ["fit_dtype", "iindex.__init__", "iindex.to_array", "iindex.from_array"])
