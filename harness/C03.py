"""C03 - index cube, array cube and direct group-by agree on the shared aggregates."""
import itertools

import numpy as rnp
import z3

from harness import aggs
from symex import loader
from symex.engine import Violation, Abort, Inconclusive, HarnessError

ID = "C03"
LEVEL = "model_checking"
REWRITES = loader.REWRITES
STUBS = ["NumPy shim (object arrays, shadow dtype/shape from real NumPy)", loader.SUMMARY_STUB]
ASSUMPTIONS = ["float64 modelled as exact rationals + IEEE tags (NaN, inf): rounding is outside the claim",
               "weights non-negative; quick tier draws weights from the palette {0, 1/2, 1, 3} through symbolic selectors",
               "a valid fact value is not NaN; values hidden under a False validity are arbitrary including NaN",
               "N (rows) concrete and small because dense arrays exist; categories of every row symbolic"]
ENGINE_OPTS = {"quick": dict(wall_s=1500, query_timeout_ms=20000), "thorough": dict(wall_s=3400, query_timeout_ms=20000)}
AGGS = ["count", "valid_count", "sum", "mean"]


def bounds(tier):
    return {"N": "<=3" if tier == "quick" else "<=4", "D": "0..2", "E": "2..3", "K": "1..2",
            "options": "covering set of (aggregate, fact form, weight form, policy, report format, dense dtype, explicit/inferred shape)"}


def _base(N, dims, E, commons, agg, **kw):
    c = dict(N=N, dims=dims, E=E, commons=commons, agg=agg, fact="nan", K=1, weights="none", ignore=False, fmt="nan",
             dtype="int64", shape="explicit")
    c.update(kw)
    if agg == "count":
        c["fact"] = "none"
    return c


def configs(tier, seed):
    out = []
    N = 3
    # D = 1: every aggregate x weights x policy, rotating the other options so that each value occurs
    facts = ["nan", "pair", "intpair"]
    fmts = ["nan", "pair", "zero"]
    wforms = ["none", "array", "pair", "scalar"]
    i = seed
    for agg in AGGS:
        for wf in wforms:
            for ignore in (False, True):
                for common in (0, 1):
                    i += 1
                    fmt = fmts[i % 3]
                    if agg == "valid_count" and fmt == "zero" and not ignore:
                        fmt = "nan"          # excluded by the property (documented shortcut)
                    out.append(_base(N, [[]], 2, [common], agg, weights=wf, ignore=ignore, fmt=fmt,
                                     fact=facts[(i // 2) % 3], K=1 + (i % 2), dtype=["int64", "uint8", "uint16"][i % 3],
                                     shape="inferred" if i % 4 == 0 else "explicit"))
    # D = 2
    for agg in AGGS:
        for wf in ("none", "array"):
            i += 1
            out.append(_base(2 if tier == "quick" else 3, [[], []], 2, [i % 2, (i // 2) % 2], agg, weights=wf, ignore=bool(i % 2),
                             fmt=fmts[i % 3] if not (agg == "valid_count") else "nan", K=1,
                             dtype="uint8" if i % 2 else "int64", shape="inferred" if i % 3 == 0 else "explicit"))
    # E = 3, rare / absent common
    for agg in ("count", "mean"):
        out.append(_base(3, [[]], 3, [2], agg, weights="array", ignore=True))
    # D = 0 (dimensionless cubes): every weight form
    for agg in AGGS:
        for wf in wforms:
            i += 1
            if tier == "quick" and wf == "pair" and agg in ("valid_count", "sum"):
                continue
            out.append(_base(2, [], 1, [], agg, weights=wf, fmt=fmts[i % 2], ignore=bool(i % 2), fact=facts[i % 3] if agg != "count" else "none"))
    if tier == "thorough":
        for agg in AGGS:
            for wf in wforms:
                for ignore in (False, True):
                    for fact in facts:
                        for K in (1, 2):
                            for fmt in fmts:
                                if agg == "valid_count" and fmt == "zero" and not ignore:
                                    continue
                                if agg == "count" and (fact != "nan" or K != 1):
                                    continue
                                out.append(_base(3, [[]], 2, [(K + len(fmt)) % 2], agg, weights=wf, ignore=ignore, fmt=fmt, fact=fact, K=K))
        for agg in AGGS:
            out.append(_base(4, [[]], 2, [0], agg, weights="array", ignore=False))
            out.append(_base(3, [[], []], 2, [0, 1], agg, weights="pair", ignore=True, K=2, fact="pair"))
            out.append(_base(3, [[]], 2, [1], agg, weights="array", ignore=False, wreal=True))
    return out


def ishape_of(cfg):
    if cfg["shape"] == "inferred":
        return None
    Es = cfg["E"] if isinstance(cfg["E"], list) else [cfg["E"]] * len(cfg["dims"])
    return tuple(Es)


def explore(cfg, eng, ctx, sides=("ccube", "xcube")):
    C = aggs.catii("summary")
    agg, ignore, fmt = cfg["agg"], cfg["ignore"], cfg["fmt"]

    def path():
        data = aggs.Data(eng, cfg)
        if "F16-isclose-band" in ctx.excl and data.wt is not None and cfg.get("wreal") and agg == "mean" and "ccube" in sides:
            # known finding F16: exclude exactly its region (some cell with 0 < valid weight sum <= 1e-8); everything else stays checked
            ish0 = ishape_of(cfg) or tuple(data.Es)
            for cell in itertools.product(*[range(e) for e in ish0]):
                for k in range(data.K):
                    _, _, wsum = data.cell_oracle("mean", ignore, [() for _ in cfg["dims"]], cell, k)
                    # (the band's edge is the double nearest 1e-8 and the sum is itself rounded: the excluded region
                    # ends a relative 1e-7 above it, so exact-arithmetic models at the edge are not reported as new)
                    eng.assume(z3.Or(wsum <= 0, wsum > z3.RealVal("1.0000001e-8")))

        def builder(model):
            c = data.case(model)
            if c is None:
                return None
            c.update(kind="aggs", agg=agg, ignore=ignore, fmt=fmt, commons=cfg["commons"], dense_dtype=cfg["dtype"],
                     ishape=None if cfg["shape"] == "inferred" else list(ishape_of(cfg)), sides=list(sides))
            return c
        ctx.case_builder = builder
        fact, weights = data.fact(), data.weights()
        rma = aggs.fmt_value(fmt, data)
        conds = []
        kw = {"N": data.N} if not cfg["dims"] else None       # a dimensionless count needs N (documented)
        for side in sides:
            try:
                if side == "ccube":
                    cube = C.ccubes.ccube(data.index_dims(C, cfg["commons"]), interacting_shape=ishape_of(cfg))
                    f, res = aggs.call_aggregate(cube, C.ffuncs, "ffunc_", agg, fact, weights, ignore, rma, kw)
                else:
                    cube = C.xcubes.xcube(data.dense_dims(rnp.dtype(cfg["dtype"])), interacting_shape=ishape_of(cfg))
                    f, res = aggs.call_aggregate(cube, C.xfuncs, "xfunc_", agg, fact, weights, ignore, rma, kw)
            except (Violation, Abort, Inconclusive):
                raise
            except HarnessError:
                raise
            except Exception as ex:
                eng.assert_(False, "%s %s raised %s: %s" % (side, agg, type(ex).__name__, str(ex)[:100]))
                return
            ish = tuple(int(x) for x in cube.interacting_shape)
            cs = []
            aggs.compare(data, res, fmt, agg, ignore, ish, side, cs)
            aggs.assert_all(eng, cs, "%s %s differs from the direct per-cell computation" % (side, agg))
        ctx.end_path()

    eng.explore(path)


def functions():
    return (loader.function_info("ccubes.py", ["ccube.calculate", "ccube._compute_common_cells_from_marginal_diffs"]) +
            loader.function_info("ffuncs.py", ["as_separate_validity", "ffunc.adjust_zeros", "ffunc_count", "ffunc_valid_count", "ffunc_sum", "ffunc_mean"]) +
            loader.function_info("xcubes.py", ["xcube.__init__", "xcube._set_strides", "xcube.strided_dims", "xcube.calculate"]) +
            loader.function_info("xfuncs.py", ["xfunc.flat_regions", "xfunc.bins", "xfunc_count", "xfunc_valid_count", "xfunc_sum", "xfunc_mean"]))
