"""C15 - index operations (see harness/indexops.py and harness/indexops_ops.py)."""
from harness import indexops as IO, indexops_ops as OPS
from symex import loader

ID = "C15"
LEVEL = "model_checking"
REWRITES = loader.REWRITES
STUBS = ["NumPy shim (object arrays, shadow dtype/shape; symbolic-length row-id arrays with order-preserving compaction)", loader.SUMMARY_STUB]
ASSUMPTIONS = ["one inductive step per operation from an arbitrary well-formed pre-state (built from a symbolic dense array; well-formed indexes are in bijection with (shape, common, dense content)), so histories of every length are covered given C07",
               "documented preconditions: filtered(new_length == mask.sum()), update cells inside the shape, row-aligned operands",
               "shapes beyond the stated bounds are outside the claim"]
ENGINE_OPTS = {"quick": dict(wall_s=1500), "thorough": dict(wall_s=3400)}
MAX_REPLAYS_PER_KIND = 3


def bounds(tier):
    return {"shapes": "1-D N<=3, 2-D 2x2, 3-D 2x2x2 (slicing)" if tier == "quick" else "1-D N<=4, 2-D 3x2, 3-D 2x2x2",
            "palette": "3 category values (+ negatives / >=256 as mapping targets and precedence entries)",
            "history length": "unbounded (inductive step)", "operations": sorted(OPS.BODIES) if OPS.MODE_OPS["C15"] is None else sorted(OPS.MODE_OPS["C15"])}


def configs(tier, seed):
    out = OPS.configs_for("C15", tier, seed)
    # library-chosen common value when building from an array without one (C01's harness, C15's assertion only)
    from harness import C01
    for c in C01.configs(tier, seed):
        if c["common"] == "omit" and c["back"] == "dtype" and len(c["pattern"]) > 0:
            out.append(dict(op="from_array", c01=c))
    return out


def explore(cfg, eng, ctx):
    if cfg["op"] == "from_array":
        from harness import C01
        C01.explore(cfg["c01"], eng, ctx, only="C15")
        return
    OPS.run(cfg, eng, ctx, "C15")


def functions():
    return loader.function_info("iindexes.py", ["iindex.__init__", "iindex.__eq__", "iindex.shift_common", "iindex.common_rowids", "iindex.get",
                                                "iindex.set_if", "iindex.items", "iindex.to_dict", "iindex.collapsed", "iindex.copy", "iindex.filtered",
                                                "iindex.sliced", "iindex.reindexed", "iindex.slices1d", "iindex.append", "iindex.update",
                                                "iindex.union_update", "iindex.intersection_update", "iindex.difference_update", "column_stack"])
