"""Shared harness for the INDX properties C10 (round trip), C11 (documented layout) and
C12 (torn files).  Structure (number of entries, arity, row-id array lengths, word sizes of
foreign files) is enumerated; coordinate / common / row-id magnitudes and the cut point are
solver variables (BitVec(80))."""
import ast
import hashlib
import itertools
import os

import z3

from symex import bvio as B
from symex.bvio import I, S, T, W
from symex.engine import Violation, Abort
from symex.replay import src_dir

_mod = {}


def indxio():
    if "m" not in _mod:
        _mod["m"] = B.load_indxio()
    return _mod["m"]


def structures(tier, seed, small=False):
    """(entries, arity, lens) triples."""
    out = []
    if tier == "quick" or small:
        shapes = [(0, 1), (1, 1), (2, 1), (1, 2), (2, 2)]
        cap = 2
    else:
        shapes = [(0, 1), (1, 1), (2, 1), (3, 1), (1, 2), (2, 2), (3, 2), (1, 3), (2, 3), (3, 3), (1, 4), (2, 4)]
        cap = 2
    for ne, ar in shapes:
        for lens in itertools.product(range(cap + 1), repeat=ne):
            if ne == 3 and sorted(lens) != list(lens):
                continue        # 3 entries: lengths up to order (entries are symmetric)
            out.append(dict(entries=ne, arity=ar, lens=list(lens)))
    return out


def sym_entries(eng, cfg, coord_max=2 ** 63, rowid_max=2 ** 32):
    ne, ar, lens = cfg["entries"], cfg["arity"], cfg["lens"]
    allc = []
    keys = []
    for i in range(ne):
        cs = [z3.BitVec("c_%d_%d" % (i, j), W) for j in range(ar)]
        for c in cs:
            eng.assume(c >= 0, c < I(coord_max))
        allc.append(cs)
        keys.append(tuple(S(c) for c in cs))
    for a, b in itertools.combinations(allc, 2):
        eng.assume(z3.Or([x != y for x, y in zip(a, b)]))
    common = z3.BitVec("common", W)
    eng.assume(common >= 0, common < I(coord_max))
    rows = []
    for i in range(ne):
        if cfg.get("concrete_rows"):
            rows.append([I(j) for j in range(lens[i])])      # long arrays: row ids concrete, only the structure matters
            continue
        rs = [z3.BitVec("r_%d_%d" % (i, j), W) for j in range(lens[i])]
        for j, r in enumerate(rs):
            eng.assume(r >= 0, r < I(rowid_max))
            if j:
                eng.assume(rs[j - 1] < r)
        rows.append(rs)
    return allc, keys, common, rows


def case_builder(cfg, allc, common, rows, kind, extra=None):
    def build(model):
        ev = lambda t: model.eval(t, model_completion=True).as_long()
        c = dict(kind=kind, keys=[[ev(x) for x in cs] for cs in allc], common=ev(common),
                 rows=[[ev(r) for r in rs] for rs in rows], arity=cfg["arity"])
        if extra:
            c.update(extra(model))
        return c
    return build


def check_loaded(eng, loaded, keys, common, rows, what):
    e2, c2, dt = loaded
    conds = [T(c2) == common, z3.BoolVal(B.sx_type(c2) is int), z3.BoolVal(len(e2) == len(keys))]
    for k2 in e2:
        conds.append(z3.BoolVal(isinstance(k2, tuple) and all(B.sx_type(c) is int for c in k2)))
    for k, rs in zip(keys, rows):
        try:
            got = e2[k]
        except KeyError:
            eng.assert_(False, what + ": saved key missing after load")
            return
        conds.append(z3.BoolVal(isinstance(got, B.Arr) and got.a.ndim == 1 and len(got.a) == len(rs)))
        if isinstance(got, B.Arr) and len(got.a) == len(rs):
            conds += [T(g) == r for g, r in zip(got.a.tolist(), rs)]
            conds.append(z3.BoolVal(got.dtype.k == "u4"))
    conds.append(z3.BoolVal(B.DT(dt).k == "u4") if dt is not None else z3.BoolVal(False))
    eng.assert_(z3.And(*conds), what)


# ------------------------------------------------------------------ specification (from the class docstring)
def narrowest(M):
    """Narrowest documented word size (1/2/4/8) for the largest value M, as a z3 term."""
    return z3.If(M < I(2 ** 8), I(1), z3.If(M < I(2 ** 16), I(2), z3.If(M < I(2 ** 32), I(4), I(8))))


def spec_encode(allc, common, rows, arity, w_index, w_rowid=4):
    """Byte terms of the documented layout, written from the docstring alone."""
    le = B.le_bytes
    ne = len(allc)
    payload = []
    payload += le(I(arity if ne else 0), 1)          # index dimensions (0 when there is no index)
    payload += le(I(ne), 4)                          # index length
    payload += le(I(w_index), 1)                     # index word size
    payload += le(common, w_index)                   # common value
    for cs in allc:                                  # coordinate matrix, row-major
        for c in cs:
            payload += le(c, w_index)
    payload += le(I(w_rowid), 1)                     # rowid word size
    for rs in rows:
        payload += le(I(len(rs)), w_rowid)           # rowid lengths
    for rs in rows:
        for r in rs:
            payload += le(r, w_rowid)
    head = B.bv8(b"INDX0001") + le(I(len(payload)), 8)
    return head + payload


def spec_decode(bs):
    """Independent decoder of the documented layout over byte terms (concrete structure)."""
    fl = B.from_le
    if len(bs) < 16:
        return None
    magic_ok = z3.And([a == b for a, b in zip(bs[:8], B.bv8(b"INDX0001"))])
    size = z3.simplify(fl(bs[8:16]))
    if not z3.is_bv_value(size) or 16 + size.as_long() != len(bs):
        return None
    p = 16
    dims = z3.simplify(fl(bs[p:p + 1])).as_long(); p += 1
    n = z3.simplify(fl(bs[p:p + 4])).as_long(); p += 4
    w = z3.simplify(fl(bs[p:p + 1])).as_long(); p += 1
    if w not in (1, 2, 4, 8):
        return None
    common = fl(bs[p:p + w]); p += w
    keys = []
    for i in range(n):
        k = []
        for j in range(dims):
            k.append(fl(bs[p:p + w])); p += w
        keys.append(k)
    rw = z3.simplify(fl(bs[p:p + 1])).as_long(); p += 1
    if rw not in (1, 2, 4, 8):
        return None
    lens = []
    for i in range(n):
        lens.append(z3.simplify(fl(bs[p:p + rw])).as_long()); p += rw
    rows = []
    for L in lens:
        rs = []
        for j in range(L):
            rs.append(fl(bs[p:p + rw])); p += rw
        rows.append(rs)
    if p != len(bs):
        return None
    return magic_ok, w, common, keys, rw, rows


# ------------------------------------------------------------------ explorations
def explore_roundtrip(cfg, eng, ctx):
    m = indxio()

    def path():
        allc, keys, common, rows = sym_entries(eng, cfg)
        ctx.case_builder = case_builder(cfg, allc, common, rows, "indx_roundtrip")
        ent = {k: B.NP.array([S(r) for r in rs], dtype=B.NP.uint32) for k, rs in zip(keys, rows)}
        f = B.File()
        try:
            m.IndxIO.save(f, ent, S(common), B.DT("u4"))
            f.seek(0)
            loaded = m.IndxIO.load(f)
        except (Violation, Abort):
            raise
        except Exception as ex:
            eng.assert_(False, "save/load raised %s: %s" % (type(ex).__name__, str(ex)[:80]))
            return
        check_loaded(eng, loaded, keys, common, rows, "loaded data differ from saved data")
        ctx.end_path()

    eng.explore(path)


def explore_layout(cfg, eng, ctx):
    """C11 obligations 1+2: bytes written == documented layout; independent decoder recovers the data."""
    m = indxio()

    def path():
        allc, keys, common, rows = sym_entries(eng, cfg)
        ctx.case_builder = case_builder(cfg, allc, common, rows, "indx_layout")
        ent = {k: B.NP.array([S(r) for r in rs], dtype=B.NP.uint32) for k, rs in zip(keys, rows)}
        f = B.File()
        try:
            m.IndxIO.save(f, ent, S(common), B.DT("u4"))
        except (Violation, Abort):
            raise
        except Exception as ex:
            eng.assert_(False, "save raised %s: %s" % (type(ex).__name__, str(ex)[:80]))
            return
        data = f.data
        M = common
        for cs in allc:
            for c in cs:
                M = z3.If(c > M, c, M)
        need = narrowest(M)
        conds = []
        ok = None
        for w in (1, 2, 4, 8):
            want = spec_encode(allc, common, rows, cfg["arity"], w)
            if len(want) == len(data):
                eq = z3.And([a == b for a, b in zip(data, want)] + [need == I(w)])
                ok = eq if ok is None else z3.Or(ok, eq)
        if ok is None:
            eng.assert_(False, "file length matches no documented word size")
            return
        eng.assert_(ok, "bytes written differ from the documented layout (narrowest word size, field order, endianness, size)")
        dec = spec_decode(data)
        if dec is None:
            eng.assert_(False, "independent decoder cannot parse the written file")
            return
        magic_ok, w, dcommon, dkeys, rw, drows = dec
        c2 = [magic_ok, dcommon == common, z3.BoolVal(len(dkeys) == len(allc)), z3.BoolVal(rw == 4)]
        if len(dkeys) == len(allc):
            for dk, cs, dr, rs in zip(dkeys, allc, drows, rows):
                c2.append(z3.BoolVal(len(dk) == len(cs) and len(dr) == len(rs)))
                if len(dk) == len(cs) and len(dr) == len(rs):
                    c2 += [a == b for a, b in zip(dk, cs)] + [a == b for a, b in zip(dr, rs)]
        eng.assert_(z3.And(*c2), "independent decoder does not recover the saved data")
        ctx.end_path()

    eng.explore(path)


def explore_foreign(cfg, eng, ctx):
    """C11 obligation 3: a file laid out per the documentation by an independent writer, with any
    admissible word sizes, loads to exactly the data it encodes."""
    m = indxio()
    wi, wr = cfg["w_index"], cfg["w_rowid"]

    def path():
        allc, keys, common, rows = sym_entries(eng, cfg, coord_max=min(2 ** 63, 256 ** wi),
                                               rowid_max=min(2 ** 32, 256 ** wr))
        ctx.case_builder = case_builder(cfg, allc, common, rows, "indx_foreign",
                                        lambda model: dict(w_index=wi, w_rowid=wr))
        data = spec_encode(allc, common, rows, cfg["arity"], wi, wr)
        f = B.File(list(data))
        try:
            loaded = m.IndxIO.load(f)
        except (Violation, Abort):
            raise
        except Exception as ex:
            eng.assert_(False, "load of a documented-layout file raised %s: %s" % (type(ex).__name__, str(ex)[:80]))
            return
        e2, c2, dt = loaded
        check_loaded(eng, (e2, c2, B.DT("u4")), keys, common, rows, "documented-layout file loads to different data")
        eng.assert_(z3.BoolVal(B.DT(dt).itemsize == wr), "returned row-id dtype differs from the file's row-id word size")
        ctx.end_path()

    eng.explore(path)


def explore_size(cfg, eng, ctx):
    """C11 obligation 4: recorded payload size == real payload length, lengths symbolic in [0, 2^32)."""
    m = indxio()
    ne = cfg["entries"]

    def path():
        lens = []
        ent = {}
        for i in range(ne):
            n = z3.BitVec("len%d" % i, W)
            eng.assume(n >= 0, n < I(2 ** 32))
            lens.append(n)
            ent[(S(I(i + 1)),)] = B.Opaque(n)

        def build(model):
            ev = lambda t: model.eval(t, model_completion=True).as_long()
            return dict(kind="indx_size", lens=[ev(n) for n in lens])
        ctx.case_builder = build
        f = B.SizeFile()
        try:
            m.IndxIO.save(f, ent, S(I(0)), B.DT("u4"))
        except (Violation, Abort):
            raise
        except Exception as ex:
            eng.assert_(False, "save raised %s: %s" % (type(ex).__name__, str(ex)[:80]))
            return
        size = B.from_le(f.head[8:16])
        eng.assert_(size == T(f.tell()) - I(16), "recorded payload size differs from the real payload length")
        ctx.end_path()

    eng.explore(path)


def explore_torn(cfg, eng, ctx):
    m = indxio()

    def path():
        allc, keys, common, rows = sym_entries(eng, cfg)
        ent = {k: B.NP.array([S(r) for r in rs], dtype=B.NP.uint32) for k, rs in zip(keys, rows)}
        f = B.File()
        try:
            m.IndxIO.save(f, ent, S(common), B.DT("u4"))
        except (Violation, Abort):
            raise
        except Exception as ex:
            # save failing is C10/C11's matter; nothing was written completely
            return
        total = len(f.data)
        k = z3.BitVec("cut", W)
        eng.assume(k >= 0, k < I(total))
        ctx.case_builder = case_builder(cfg, allc, common, rows, "indx_torn",
                                        lambda model: dict(cut=model.eval(k, model_completion=True).as_long()))
        g = B.File(list(f.data), size=k)
        try:
            m.IndxIO.load(g)
        except (Violation, Abort):
            raise
        except Exception:
            eng.vcs += 1          # obligation "load raises" discharged on this path for every k it covers
            ctx.end_path()
            return
        eng.assert_(False, "a torn file was accepted")

    eng.explore(path)


def functions():
    path = os.path.join(src_dir(), "indxio.py")
    src = open(path).read()
    tree = ast.parse(src)
    out = []
    for cls in tree.body:
        if isinstance(cls, ast.ClassDef):
            for fn in cls.body:
                if isinstance(fn, ast.FunctionDef):
                    seg = ast.get_source_segment(src, fn)
                    out.append(dict(file="src/catii/indxio.py", name="IndxIO." + fn.name,
                                    lines="%d-%d" % (fn.lineno, fn.end_lineno),
                                    sha256=hashlib.sha256(seg.encode()).hexdigest()))
    return out
