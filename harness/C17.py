"""C17 - aggregations are pure: inputs untouched, no hidden state between calls."""
import itertools

import numpy as rnp
import z3

from harness import aggs, C03, C05
from symex import loader, snp
from symex import scalars as S
from symex.engine import Violation, Abort, Inconclusive, HarnessError
from symex.scalars import rparts, bt

ID = "C17"
LEVEL = "model_checking"
REWRITES = loader.REWRITES
STUBS = C03.STUBS
ASSUMPTIONS = C03.ASSUMPTIONS + ["buffer contents are compared element by element (identity of the stored term, else solver-decided equality; NaN equals NaN)",
                                 "values hidden under a False validity are arbitrary (including NaN), so a missing copy shows as a changed cell",
                                 "index edited between two cubes: the highest present category of the first dimension is moved to a new higher one with del / item assignment (well-formedness kept); shapes inferred"]
ENGINE_OPTS = C03.ENGINE_OPTS
AGGS = ["count", "valid_count", "sum", "mean"]


def bounds(tier):
    return {"N": 3, "D": "1..2", "E": 2, "K": "1..2", "aggregates": "count, valid_count, sum, mean singly and all permutations of three in one pass",
            "cube types": "ccube, xcube"}


def configs(tier, seed):
    out = []
    i = seed
    for side in ("ccube", "xcube"):
        for wf in ("none", "array", "pair", "scalar"):
            for fact in ("nan", "pair", "intpair"):
                for ignore in (False, True):
                    i += 1
                    if tier == "quick" and (i % 2):
                        continue
                    out.append(C03._base(3, [[]], 2, [i % 2], "sum", weights=wf, ignore=ignore, fact=fact, K=1 + (i // 2) % 2,
                                         fmt=["nan", "pair", "zero"][i % 3], side=side, trio=[AGGS[(i + j) % 4] for j in range(3)]))
        out.append(C03._base(2, [[], []], 2, [0, 1], "sum", weights="array", ignore=False, fact="pair", K=1, fmt="nan", side=side,
                             trio=["mean", "count", "sum"]))
        out.append(C03._base(2, [[2]], 2, [1], "sum", weights="pair", ignore=True, fact="nan", K=1, fmt="pair", side=side,
                             trio=["valid_count", "mean", "sum"]))
    # array-cube-only statistics computed together with others (any order), mixed missing-value policies
    for trio, K in ((["covariance:ign", "max:prop", "sum:prop"], 2), (["corrcoef:ign", "min:prop", "count:prop"], 2),
                    (["stddev:ign", "quantile:prop", "valid_count:prop"], 1), (["max:prop", "covariance:ign", "mean:ign"], 2),
                    (["max:ign", "sum:prop", "min:ign"], 1)):
        out.append(C03._base(3, [[]], 2, [0], "sum", weights="none", ignore=False, fact="nan", K=K, fmt="nan", side="xcube", trio=trio))
        # the same statistics with weights in both forms (caller-owned weight arrays must stay untouched)
        wtrio = [t for t in trio if not t.startswith(("max", "min"))] + ["sum:prop"]
        if len(set(wtrio)) < 3:
            continue
        out.append(C03._base(2, [[]], 2, [1], "sum", weights="pair", ignore=False, fact="pair" if K == 1 else "nan", K=K, fmt="nan",
                             side="xcube", trio=wtrio[:3], wvals=["1/2", "3"]))
        if tier == "thorough" or K == 2:
            out.append(C03._base(2, [[]], 2, [0], "sum", weights="array", ignore=False, fact="nan", K=K, fmt="nan",
                                 side="xcube", trio=wtrio[:3], wvals=["3", "1"]))
        if tier == "thorough":
            out.append(C03._base(3, [[]], 2, [1], "sum", weights="none", ignore=True, fact="nan", K=K, fmt="pair", side="xcube", trio=trio))
    # zero-dimensional array cubes take their own branches in every xfunc (no coordinates): weighted statistics under
    # both policies, objects re-used for a second calculate
    for trio, K, wf, wv in ((["stddev:prop", "quantile:ign", "sum:prop"], 1, "pair", ["1/2", "3"]),
                            (["stddev:ign", "mean:prop", "valid_count:ign"], 2, "array", ["3", "1"]),
                            (["covariance:prop", "stddev:prop", "mean:ign"], 2, "array", ["1", "2"])):
        out.append(C03._base(2, [], 1, [], "sum", weights=wf, ignore=False, fact="nan" if K == 2 else "pair", K=K, fmt="nan",
                             side="xcube", trio=trio, wvals=wv))
    out.append(C03._base(3, [], 1, [], "sum", weights="none", ignore=False, fact="nan", K=1, fmt="pair", side="xcube",
                         trio=["stddev:prop", "max:ign", "quantile:prop"]))
    return out


def snapshot(arrs):
    return [(a, a.o.copy(), a.d, a.o.shape) for a in arrs]


def same_elem(x, y):
    if x is y:
        return True
    if isinstance(x, (bool, S.SBool)) and isinstance(y, (bool, S.SBool)):
        return S.bt(x) == S.bt(y)
    tx, nx, ix = rparts(x)
    ty, ny, iy = rparts(y)
    return z3.And(bt(nx) == bt(ny), bt(ix) == bt(iy), z3.Implies(z3.Not(bt(nx)), tx == ty))


def unchanged(snaps):
    cs = []
    for a, before, d, shape in snaps:
        if a.d != d or a.o.shape != shape:
            return z3.BoolVal(False)
        for x, y in zip(before.reshape(-1), a.o.reshape(-1)):
            c = same_elem(x, y)
            if c is not True:
                cs.append(c)
    return z3.And(*cs) if cs else z3.BoolVal(True)


def arrays_of(x):
    if x is None:
        return []
    if isinstance(x, tuple):
        return [a for part in x for a in arrays_of(part)]
    if isinstance(x, snp.ndarray):
        return [x]
    return []


def explore(cfg, eng, ctx):
    C = aggs.catii("summary")
    ignore, fmt, side, trio = cfg["ignore"], cfg["fmt"], cfg["side"], cfg["trio"]
    D = len(cfg["dims"])
    ishape = tuple([cfg["E"]] * D)
    mod, prefix = (C.ffuncs, "ffunc_") if side == "ccube" else (C.xfuncs, "xfunc_")

    def path():
        data = aggs.Data(eng, cfg)

        def builder(model):
            c = data.case(model)
            if c is None:
                return None
            c.update(kind="purity", ignore=ignore, fmt=fmt, commons=cfg["commons"], ishape=list(ishape), side=side, trio=trio)
            return c
        ctx.case_builder = builder
        fact, weights = data.fact(), data.weights()
        rma = aggs.fmt_value(fmt, data)
        if side == "ccube":
            dims = data.index_dims(C, cfg["commons"])
            inputs = [a for ix in dims for a in dict.values(ix)]
            keys_before = [(list(dict.keys(ix)), ix.common, ix.shape) for ix in dims]
        else:
            dims = data.dense_dims()
            inputs = list(dims)
            keys_before = None
        inputs += arrays_of(fact) + arrays_of(weights)
        snaps = snapshot(inputs)
        rma_before = rma

        def mk(spec):
            agg, _, pol = spec.partition(":")
            ign = ignore if not pol else (pol == "ign")
            cls = getattr(mod, prefix + agg)
            if agg == "valid_count" and fmt == "zero" and not ign:
                return cls(fact, weights, ign, float("nan"))
            if agg == "count":
                return cls(weights, None, ign, rma)
            if agg in ("max", "min"):
                return cls(fact, ign, rma)
            if agg == "quantile":
                return cls(fact, 0.5, weights, ign, rma)
            return cls(fact, weights, ign, rma)

        def fm(spec):
            agg, _, pol = spec.partition(":")
            ign = ignore if not pol else (pol == "ign")
            return "nan" if (agg == "valid_count" and fmt == "zero" and not ign) else fmt
        mkcube = C.ccubes.ccube if side == "ccube" else C.xcubes.xcube
        # the same fact object aggregated WITHOUT weights before and after the weighted calls (a repeated call whose result
        # must not depend on what was computed in between with other arguments)
        plain_first = None
        try:
            if data.form != "none" and data.wform != "none":
                plain_first = mkcube(dims, interacting_shape=ishape).calculate([getattr(mod, prefix + "sum")(fact, None, ignore, rma)])[0]
            cube = mkcube(dims, interacting_shape=ishape)
            eng.assert_(unchanged(snaps), "cube construction changed an argument")
            fs = [mk(a) for a in trio]
            eng.assert_(unchanged(snaps), "aggregate construction changed an argument")
            together = cube.calculate(fs)
            eng.assert_(unchanged(snaps), "calculate changed an argument")
            alone = [cube.calculate([mk(a)])[0] for a in trio]
            for a, t, s in zip(trio, together, alone):
                eng.assert_(C05.same_outputs(t, s, fm(a)), "%s computed with others in one pass differs from computing it alone" % a)
            # other orders of the same three aggregates
            for perm in ([2, 0, 1], [1, 2, 0], [2, 1, 0]):
                res = cube.calculate([mk(trio[j]) for j in perm])
                for pos, j in enumerate(perm):
                    eng.assert_(C05.same_outputs(res[pos], alone[j], fm(trio[j])), "%s depends on the order of aggregates in one pass" % trio[j])
            # re-using the same aggregate objects on the same cube and on another cube object
            again = cube.calculate(fs)
            for a, t, s in zip(trio, again, alone):
                eng.assert_(C05.same_outputs(t, s, fm(a)), "re-using the %s object gave a different result" % a)
            cube2 = (C.ccubes.ccube if side == "ccube" else C.xcubes.xcube)(dims, interacting_shape=ishape)
            other = cube2.calculate(fs)
            for a, t, s in zip(trio, other, alone):
                eng.assert_(C05.same_outputs(t, s, fm(a)), "re-using the %s object on another cube gave a different result" % a)
            # an unweighted / scalar-weight count object used first on a cube with ANOTHER number of rows
            for a in trio:
                if a.partition(":")[0] == "count" and data.wform in ("none", "scalar"):
                    cfg2 = dict(cfg, N=cfg["N"] + 1, fact="none")
                    data2 = aggs.Data(eng, cfg2, tag="o_")
                    dims2 = data2.index_dims(C, cfg["commons"]) if side == "ccube" else data2.dense_dims()
                    fresh = mk(a)
                    (C.ccubes.ccube if side == "ccube" else C.xcubes.xcube)(dims2, interacting_shape=ishape).calculate([fresh])
                    back = cube.calculate([fresh])[0]
                    eng.assert_(C05.same_outputs(back, alone[trio.index(a)], fm(a)),
                                "a count object used on a cube with another number of rows gives a different result afterwards")
            if plain_first is not None:
                plain_again = mkcube(dims, interacting_shape=ishape).calculate([getattr(mod, prefix + "sum")(fact, None, ignore, rma)])[0]
                eng.assert_(C05.same_outputs(plain_first, plain_again, fmt),
                            "an unweighted sum of the same fact object differs after weighted aggregates of it were computed")
            eng.assert_(unchanged(snaps), "a later calculate changed an argument")
            if keys_before is not None:
                ok = all(list(dict.keys(ix)) == k and ix.common == c and ix.shape == s for ix, (k, c, s) in zip(dims, keys_before))
                eng.assert_(z3.BoolVal(ok), "an index argument changed its keys, common value or shape")
            eng.assert_(z3.BoolVal(rma is rma_before), "return_missing_as changed")
            # an index that cubes have already seen (shape inferred from it), then edited by its owner: the next cube built
            # over that object must give what a cube over an equal, never-seen index gives. Last step: it changes `dims`.
            if side == "ccube" and not any(cfg["dims"]) and D >= 1:
                cnt = lambda dd: C.ccubes.ccube(dd).calculate([C.ffuncs.ffunc_count(weights, None, ignore, rma)])[0]
                cnt(dims)
                ix = dims[0]
                present = sorted(dict.keys(ix))
                if present:
                    top = present[-1]
                    rows = ix[top]
                    del ix[top]
                    ix[(int(data.Es[0]),)] = rows          # the rows of the highest category move to a new, higher one
                    fresh = C.iindexes.iindex.__new__(C.iindexes.iindex)
                    dict.__init__(fresh, dict(dict.items(ix)))
                    fresh.common, fresh.shape, fresh.rowid_dtype = ix.common, ix.shape, ix.rowid_dtype
                    eng.assert_(C05.same_outputs(cnt(dims), cnt([fresh] + list(dims[1:])), fmt),
                                "a cube over an index edited after an earlier cube saw it differs from a cube over an equal fresh index")
        except (Violation, Abort, Inconclusive, HarnessError):
            raise
        except Exception as ex:
            eng.assert_(False, "raised %s: %s" % (type(ex).__name__, str(ex)[:100]))
            return
        ctx.end_path()

    eng.explore(path)


functions = C03.functions
