"""Shared harness for the index-operation properties C06 (dense semantics), C07 (well-formedness)
and C15 (most-frequent common value, canonical equality).

One inductive step per operation from an arbitrary well-formed pre-state: the pre-state is built by
the harness from a symbolic dense array (well-formed indexes are in bijection with (shape, common,
dense content)), so one step covers histories of any length.  mode selects the obligations."""
import itertools

import numpy as rnp
import z3

from harness import cubes
from symex import loader, snp
from symex import scalars as S
from symex.engine import E, Violation, Abort, Inconclusive, HarnessError
from symex.scalars import SInt, SBool, it, bt, mkbool, e_lt

IV = z3.IntVal


def catii():
    return cubes.catii("summary")


class SymDense:
    """Symbolic dense array of shape `shape` with values from `palette`."""

    def __init__(self, eng, tag, shape, palette):
        self.shape = tuple(shape)
        self.palette = list(palette)
        self.cells = {}
        for idx in itertools.product(*[range(e) for e in self.shape]):
            v = z3.Int("%s_%s" % (tag, "_".join(map(str, idx))))
            eng.assume(z3.Or([v == p for p in self.palette]))
            self.cells[idx] = v

    def index(self, C, common):
        """The well-formed index of this dense content with the given common value."""
        N = self.shape[0] if self.shape else 0
        ent = {}
        for sub in itertools.product(*[range(e) for e in self.shape[1:]]):
            for p in self.palette:
                if p == common:
                    continue
                o = rnp.empty(N, dtype=object)
                for r in range(N):
                    o[r] = mkbool(self.cells[(r,) + sub] == p)
                (rows,) = snp.ndarray(o, bool).nonzero()
                n = rows.n if rows.n is not None else rows.o.shape[0]
                if bool(e_lt(0, n)):
                    ent[(p,) + sub] = rows.astype(rnp.uint32)
        ix = C.iindexes.iindex.__new__(C.iindexes.iindex)
        dict.__init__(ix, ent)
        ix.common = common
        ix.shape = self.shape
        ix.rowid_dtype = C.iindexes.iindex.ROWID_DTYPE
        return ix

    def ev(self, model):
        a = rnp.zeros(self.shape, dtype=rnp.int64)
        for idx, v in self.cells.items():
            a[idx] = model.eval(v, model_completion=True).as_long()
        return a.tolist()


def member(arr, r):
    """z3 Bool: row id r occurs in the (symbolic-length) array."""
    cs = []
    for j, x in enumerate(arr.o):
        g = arr.live(j)
        c = S.e_and(g, S.e_eq(x, r))
        if c is True:
            return z3.BoolVal(True)
        if c is not False:
            cs.append(bt(c))
    return z3.Or(cs) if cs else z3.BoolVal(False)


def alpha(ix, shape=None):
    """Dense abstraction of an index, written by the harness: dict cell -> z3 Int term."""
    shape = tuple(int(x) for x in (shape if shape is not None else ix.shape))
    out = {}
    common = ix.common
    for idx in itertools.product(*[range(e) for e in shape]):
        t = it(common)
        for key, arr in dict.items(ix):
            if tuple(key[1:]) == idx[1:]:
                t = z3.If(member(arr, idx[0]), it(key[0]), t)
        out[idx] = t
    return out


def plain_int(x):
    return type(x) is int


def invariant(C, ix, what, conds, exclusivity=True):
    """Well-formedness of an index (C07's list), as (label, z3 Bool) pairs appended to conds."""
    ok = isinstance(ix.shape, tuple) and all(plain_int(s) for s in ix.shape)
    conds.append((what + ": shape is a tuple of ints", z3.BoolVal(ok)))
    if not ok:
        return
    shape = ix.shape
    items = list(dict.items(ix))
    for key, arr in items:
        kok = isinstance(key, tuple) and len(key) == len(shape) and all(plain_int(c) for c in key) and \
            all(0 <= c < e for c, e in zip(key[1:], shape[1:]))
        conds.append((what + ": key %r has plain-int coordinates within the shape" % (key,), z3.BoolVal(bool(kok))))
        if not kok:
            continue
        conds.append((what + ": nothing listed under the common value (key %r)" % (key,), bt(S.e_ne(key[0], ix.common))))
        aok = isinstance(arr, snp.ndarray) and arr.o.ndim == 1 and arr.d == rnp.dtype(rnp.uint32)
        conds.append((what + ": entry %r is a 1-D uint32 array" % (key,), z3.BoolVal(bool(aok))))
        if not aok:
            continue
        n = arr.n if arr.n is not None else arr.o.shape[0]
        conds.append((what + ": entry %r is not empty" % (key,), bt(S.e_lt(0, n))))
        for j, x in enumerate(arr.o):
            g = bt(arr.live(j))
            conds.append((what + ": entry %r row ids below the row count" % (key,), z3.Implies(g, z3.And(it(x) >= 0, it(x) < shape[0]))))
            if j:
                conds.append((what + ": entry %r strictly increasing" % (key,), z3.Implies(g, it(arr.o[j - 1]) < it(x))))
    if exclusivity:
        for (ka, A), (kb, B) in itertools.combinations(items, 2):
            if not (isinstance(ka, tuple) and isinstance(kb, tuple)) or ka[1:] != kb[1:]:
                continue
            if not (isinstance(A, snp.ndarray) and isinstance(B, snp.ndarray)):
                continue
            for i, x in enumerate(A.o):
                for j, y in enumerate(B.o):
                    conds.append((what + ": no row under both %r and %r" % (ka, kb),
                                  z3.Implies(z3.And(bt(A.live(i)), bt(B.live(j))), it(x) != it(y))))


def most_frequent(ix, values, what, conds):
    a = alpha(ix)
    cnt = lambda v: z3.Sum([z3.If(t == v, 1, 0) for t in a.values()] + [IV(0)])
    cc = cnt(it(ix.common))
    for v in values:
        conds.append((what + ": common value %r is at least as frequent as %r" % (ix.common, v), cc >= cnt(v)))


def dense_equal(a, model_cells, what, conds):
    """alpha(post) == model, cell by cell."""
    if set(a.keys()) != set(model_cells.keys()):
        conds.append((what + ": shape of the dense result", z3.BoolVal(False)))
        return
    for idx, t in a.items():
        conds.append((what + ": cell %r" % (idx,), t == model_cells[idx]))


def discharge(eng, conds):
    for label, c in conds:
        eng.assert_(c, label)


def shares_memory(a, b):
    return isinstance(a, snp.ndarray) and isinstance(b, snp.ndarray) and rnp.shares_memory(a.o, b.o)


def snapshot(ix):
    return (dict((k, (v, v.o.copy(), v.n)) for k, v in dict.items(ix)), ix.common, ix.shape)


def unchanged(ix, snap, what, conds):
    ent, common, shape = snap
    ok = ix.common == common and ix.shape == shape and set(dict.keys(ix)) == set(ent.keys())
    conds.append((what + ": operand keys/common/shape unchanged", z3.BoolVal(bool(ok))))
    if not ok:
        return
    for k, (arr, before, n) in ent.items():
        now = dict.__getitem__(ix, k)
        same = now is arr and now.n is n and now.o.shape == before.shape
        conds.append((what + ": operand entry %r is the same array object" % (k,), z3.BoolVal(bool(same))))
        if same:
            for x, y in zip(before, now.o):
                if x is not y:
                    conds.append((what + ": operand entry %r contents unchanged" % (k,), bt(S.e_eq(x, y))))
