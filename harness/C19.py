"""C19 - chosen integer dtypes are wide enough and no wider (DESIGN.md section 5).

The real source text of iindexes.fit_dtype is compiled and executed with symbolic
(maxval, minval); the engine enumerates every path (the partition induced by the constants
the implementation compares against) and each VC is linear integer arithmetic over the
whole documented domain."""
import ast
import hashlib
import os

import numpy as rnp
import z3

from symex.engine import Violation
from symex.replay import src_dir
from symex.scalars import SInt

ID = "C19"
LEVEL = "model_checking"
REWRITES = ["none (fit_dtype executed as written; numpy.dtype/intN are the real NumPy objects)"]
STUBS = []
ASSUMPTIONS = ["domain: -2^63 <= min <= 0, min <= max, max < 2^64 when nothing is negative else max < 2^63; one-argument form with -2^63 <= max < 0",
               "dtype limits are read from numpy.iinfo of the engine's NumPy (same limits in every NumPy)"]
ENGINE_OPTS = {"quick": dict(wall_s=300), "thorough": dict(wall_s=300)}
INTS = [rnp.int8, rnp.int16, rnp.int32, rnp.int64]
UINTS = [rnp.uint8, rnp.uint16, rnp.uint32, rnp.uint64]


def bounds(tier):
    return {"domain": "whole documented domain, unbounded Int variables", "loops": "none (loop-free)"}


def configs(tier, seed):
    return [dict(form="two"), dict(form="one-negative"), dict(form="one-nonneg")]


def load_fit():
    path = os.path.join(src_dir(), "iindexes.py")
    tree = ast.parse(open(path).read())
    fn = [n for n in tree.body if isinstance(n, ast.FunctionDef) and n.name == "fit_dtype"][0]
    ns = {"numpy": rnp}
    exec(compile(ast.Module([fn], []), path, "exec"), ns)
    return ns["fit_dtype"]


def explore(cfg, eng, ctx):
    fit = load_fit()

    def path():
        mx, mn = z3.Int("maxval"), z3.Int("minval")
        if cfg["form"] == "two":
            eng.assume(mn >= -2 ** 63, mn <= 0, mn <= mx,
                       z3.If(z3.Or(mn < 0, mx < 0), mx < 2 ** 63, mx < 2 ** 64))
            args = (SInt(mx), SInt(mn))
            lo, hi = mn, z3.If(mx > 0, mx, 0)
            lo = z3.If(mx < lo, mx, lo)
        elif cfg["form"] == "one-negative":
            eng.assume(mx >= -2 ** 63, mx < 0)
            args = (SInt(mx),)
            lo, hi = mx, z3.IntVal(0)
        else:
            eng.assume(mx >= 0, mx < 2 ** 64)
            args = (SInt(mx),)
            lo, hi = z3.IntVal(0), mx

        def builder(model):
            ev = lambda t: model.eval(t, model_completion=True).as_long()
            return dict(kind="fit", args=[ev(mx)] + ([ev(mn)] if len(args) == 2 else []))
        ctx.case_builder = builder
        try:
            dt = fit(*args)
        except Violation:
            raise
        except Exception as ex:
            eng.assert_(False, "exception %s" % type(ex).__name__)
            return
        if not isinstance(dt, rnp.dtype) or dt.type not in INTS + UINTS:
            eng.assert_(False, "result is not a NumPy integer dtype")
            return
        info = rnp.iinfo(dt)
        signed = dt.type in INTS
        ladder = INTS if signed else UINTS
        conds = [lo >= int(info.min), hi <= int(info.max), z3.BoolVal(signed) == (lo < 0)]
        for narrower in ladder[:ladder.index(dt.type)]:
            ni = rnp.iinfo(narrower)
            conds.append(z3.Not(z3.And(lo >= int(ni.min), hi <= int(ni.max))))
        eng.assert_(z3.And(*conds), "dtype %s is not the narrowest fitting dtype of the right signedness" % dt.name)
        ctx.end_path()

    eng.explore(path)


def functions():
    path = os.path.join(src_dir(), "iindexes.py")
    src = open(path).read()
    tree = ast.parse(src)
    fn = [n for n in tree.body if isinstance(n, ast.FunctionDef) and n.name == "fit_dtype"][0]
    seg = ast.get_source_segment(src, fn)
    return [dict(file="src/catii/iindexes.py", name="fit_dtype", lines="%d-%d" % (fn.lineno, fn.end_lineno),
                 sha256=hashlib.sha256(seg.encode()).hexdigest())]


DUMP_VCS = {"quick": 40, "thorough": 40}


def cross_check(tier, had_violation, dumps=()):
    """Second engine: CrossHair on the same source text (crosscheck/ch_fit.py)."""
    import subprocess
    import sys
    here = os.path.dirname(os.path.dirname(os.path.abspath(__file__)))
    env = dict(os.environ, PYTHONPATH=here)
    r = subprocess.run([sys.executable, "-m", "crosshair", "check", "--report_all", "--per_condition_timeout", "120",
                        os.path.join(here, "crosscheck", "ch_fit.py")], cwd=here, env=env, stdout=subprocess.PIPE,
                       stderr=subprocess.STDOUT, text=True, timeout=600)
    lines = [l.split(": ", 1)[1] if ": " in l else l for l in r.stdout.strip().splitlines()]
    confirmed = sum(1 for l in lines if "Confirmed over all paths" in l)
    refuted = [l for l in lines if l.startswith("error")]
    out = {"crosshair": {"confirmed_conditions": confirmed, "refuted": refuted[:3], "raw": lines[:6]}}
    if refuted and not had_violation:
        out["disagree"] = True
    from symex import second_solver
    out["cvc5"] = second_solver.redecide(list(dumps))
    if out["cvc5"]["sat"]:
        out["disagree"] = True
    if not refuted and confirmed < 2 and not had_violation:
        out["crosshair"]["note"] = "not confirmed over all paths (inconclusive second opinion)"
    return out
