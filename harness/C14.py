"""C14 - walk presents exactly the non-empty uncommon and marginal intersections."""
import itertools

import z3

from harness import cubes
from symex import loader
from symex.engine import Violation, Abort
from symex.scalars import SInt, it

ID = "C14"
LEVEL = "model_checking"
REWRITES = loader.REWRITES
STUBS = ["NumPy shim (object arrays, shadow dtype/shape)", loader.SUMMARY_STUB]
ASSUMPTIONS = ["dimensions are one-axis indexes with strictly increasing row ids below N and no row under two categories; entries are non-empty (C07) except in the 'allow_empty' configurations, where any entry may be empty",
               "N symbolic with N*scaffold < 2^30 (pooling off)", "total uncommon rows per category bounded by the cap; N itself unbounded below 2^30"]
ENGINE_OPTS = {"quick": dict(wall_s=1200), "thorough": dict(wall_s=3400)}


def bounds(tier):
    return {"D": "1..3" if tier == "quick" else "1..4", "E": 3, "cap": "2 (D<=2), 1 (D=3)" if tier == "quick" else "2 (D<=3), 1 (D=4)",
            "commons": "all for D<=2, covering set beyond", "key presence": "every subset of uncommon categories (structure)"}


def configs(tier, seed):
    E = 3
    out = []
    plan = [(1, 2), (2, 2), (3, 1)] if tier == "quick" else [(1, 3), (2, 2), (3, 2), (4, 1)]
    for D, cap in plan:
        if D <= 2:
            commons_list = list(itertools.product(range(E), repeat=D))
        else:
            commons_list = [tuple([c] * D) for c in range(E)] + [tuple((c + i) % E for i in range(D)) for c in range(1)]
        for commons in commons_list:
            unc = [[v for v in range(E) if v != commons[d]] for d in range(D)]
            keys = [(d, v) for d in range(D) for v in unc[d]]
            pats = list(itertools.product((True, False), repeat=len(keys)))
            if D >= 3 and tier == "quick":
                # covering subset: all-present, each single absent, one dimension empty, seed-rotated extras
                keep = [p for p in pats if sum(1 for x in p if not x) <= 1]
                keep += [p for p in pats if any(all(not p[i] for i, (d, v) in enumerate(keys) if d == dd) for dd in range(D)) and sum(p) >= 2][:3]
                rest = [p for p in pats if p not in keep]
                keep += rest[seed % max(1, len(rest))::max(1, len(rest) // 3)][:3]
                pats = keep
            elif D >= 4:
                pats = [p for p in pats if sum(1 for x in p if not x) <= 1 or sum(p) <= 2]
            for p in pats:
                out.append(dict(D=D, E=E, cap=cap, commons=list(commons),
                                present=[[d, v] for (d, v), x in zip(keys, p) if x]))
            # entries with an empty row-id array (accepted by iindex.validate(); the walk guards against them)
            if D >= 2 and (D == 2 or commons == commons_list[0]):
                out.append(dict(D=D, E=E, cap=1 if D > 2 else cap, commons=list(commons), present=[[d, v] for (d, v) in keys], allow_empty=True))
    if tier == "quick":
        # three dimensions with two-row entries (the full D=3 cap=2 family is in the thorough tier): one dimension
        # has two uncommon categories, the others one, so a later-iterated category meets a partially overlapping base
        for commons in ((0, 0, 0), (1, 2, 0)):
            for two in range(3):
                pres = []
                for d in range(3):
                    unc = [v for v in range(E) if v != commons[d]]
                    pres += [[d, v] for v in (unc if d == two else unc[:1])]
                out.append(dict(D=3, E=E, cap=2, commons=list(commons), present=pres))
    # skewed entry lengths derived from the integer constants of ccubes.py (cf. C02): an entry of exactly c rows against a
    # single-row entry, either way round
    from harness import C02
    for c in C02.code_constants():
        for long_dim in (0, 1):
            out.append(dict(D=2, E=2, cap=1, commons=[0, 0], present=[[0, 1], [1, 1]], lens={str(long_dim): c}, derived_from_constant=c))
    return out


def explore(cfg, eng, ctx):
    C = cubes.catii("summary")
    D, E, cap, commons = cfg["D"], cfg["E"], cfg["cap"], cfg["commons"]
    present = {(d, v) for d, v in cfg["present"]}

    def path():
        N = z3.Int("N")
        eng.assume(N >= 0, N < 2 ** 30)
        dims, ents = [], []
        for d in range(D):
            pres = {(v,): ((d, v) in present) for v in range(E)}
            lens = {(1,): cfg["lens"][str(d)]} if str(d) in cfg.get("lens", {}) else None
            ix, es = cubes.sym_dim(eng, C, "d%d" % d, N, range(E), commons[d], cap=cap, present=pres,
                                   min_len=0 if cfg.get("allow_empty") else 1, lens=lens)
            dims.append(ix)
            ents.append(es)
        meta = [((), commons[d], ents[d]) for d in range(D)]

        def builder(model):
            n, dd = cubes.dims_case(model, N, meta)
            return dict(kind="walk", N=n, dims=dd)
        ctx.case_builder = builder
        cube = C.ccubes.ccube(dims, interacting_shape=tuple([E] * D))
        try:
            got = cube.interactions()
        except (Violation, Abort):
            raise
        except Exception as ex:
            eng.assert_(False, "walk raised %s: %s" % (type(ex).__name__, str(ex)[:100]))
            return
        by_key = {}
        for d in range(D):
            for e in ents[d]:
                by_key[(d, e.key[0])] = e
        conds = []
        seen = set()
        for coords, rowids in got:
            coords = tuple(int(c) for c in coords)
            if coords in seen:
                eng.assert_(False, "combination %r delivered twice" % (coords,))
                return
            seen.add(coords)
            if len(coords) != D or all(c == -1 for c in coords):
                eng.assert_(False, "all-marginal or malformed combination %r delivered" % (coords,))
                return
            if any(c == commons[d] for d, c in enumerate(coords)):
                eng.assert_(False, "common category delivered in %r" % (coords,))
                return
            if any(c != -1 and (d, c) not in by_key for d, c in enumerate(coords)):
                eng.assert_(False, "unknown category delivered in %r" % (coords,))
                return
            R = rowids
            n = it(R.n) if R.n is not None else z3.IntVal(R.o.shape[0])
            rs = [it(x) for x in R.o]
            live = [z3.IntVal(j) < n for j in range(len(rs))]
            sel = [by_key[(d, c)] for d, c in enumerate(coords) if c != -1]
            inrows = lambda t: z3.And([e.member(t) for e in sel])
            conds.append(n > 0)
            for j, r in enumerate(rs):
                conds.append(z3.Implies(live[j], inrows(r)))
                if j:
                    conds.append(z3.Implies(live[j], rs[j - 1] < r))
            first = sel[0]
            for j, x in enumerate(first.xs):
                conds.append(z3.Implies(z3.And(first.live(j), inrows(x)),
                                        z3.Or([z3.And(live[q], rs[q] == x) for q in range(len(rs))] + [z3.BoolVal(False)])))
            conds.append(z3.BoolVal(R.d.name == "uint32"))
        # every undelivered combination must be matched by no row
        options = [[-1] + [v for v in range(E) if v != commons[d]] for d in range(D)]
        for coords in itertools.product(*options):
            if coords in seen or all(c == -1 for c in coords):
                continue
            if any(c != -1 and (d, c) not in by_key for d, c in enumerate(coords)):
                continue
            sel = [by_key[(d, c)] for d, c in enumerate(coords) if c != -1]
            first = sel[0]
            for j, x in enumerate(first.xs):
                conds.append(z3.Not(z3.And(first.live(j), *[e.member(x) for e in sel[1:]])))
        eng.assert_(z3.And(*conds) if conds else True, "walk output differs from the non-empty uncommon/marginal intersections")
        ctx.end_path()

    eng.explore(path)


def functions():
    return loader.function_info("ccubes.py", ["ccube.__init__", "ccube._walk", "ccube.walk", "ccube.interactions"])
