"""The operations of C06/C07/C15: configurations and one-step harness bodies."""
import itertools

import numpy as rnp
import z3

from harness import indexops as IO
from harness.indexops import SymDense, alpha, invariant, most_frequent, dense_equal, snapshot, unchanged, shares_memory
from symex import snp
from symex import scalars as S
from symex.engine import E, Violation, Abort, Inconclusive, HarnessError
from symex.scalars import SBool, SInt, it, bt, mkbool

IV = z3.IntVal
PAL = [0, 1, 2]
PALX = [0, 1, 300, -2]


def _shapes(tier, two_d=True):
    out = [(2,), (3,)]
    if tier == "thorough":
        out.append((4,))
    if two_d:
        out.append((2, 2))
        if tier == "thorough":
            out.append((3, 2))
    return out


# ---------------------------------------------------------------- configuration lists
def configs(tier, seed):
    out = []
    # shift_common
    for shape in _shapes(tier):
        for common in PAL:
            for new in PAL + [7, None]:
                if new == common:
                    continue
                out.append(dict(op="shift_common", shape=list(shape), pal=PAL, common=common, new=new))
    # append
    rows = [(0, 2), (2, 0), (1, 2), (2, 2), (1, 1)] if tier == "quick" else [(0, 2), (2, 0), (1, 2), (2, 1), (2, 2), (1, 1), (0, 0), (3, 1)]
    for n1, n2 in rows:
        for c1 in PAL:
            for c2 in PAL:
                if tier == "quick" and (n1 + n2 + c1 + c2 + seed) % 2 and not (c1 != c2 and n2 == 2 and n1 == 2):
                    continue
                out.append(dict(op="append", shape=[n1], shape2=[n2], pal=PAL, common=c1, common2=c2))
    for c1, c2 in [(0, 0), (0, 1), (2, 1)]:
        out.append(dict(op="append", shape=[1, 2], shape2=[2, 2], pal=PAL, common=c1, common2=c2))
        if tier == "thorough":
            out.append(dict(op="append", shape=[2, 2], shape2=[1, 2], pal=PAL, common=c1, common2=c2))
    # update
    for shape in ([(2,), (3,), (2, 2)] if tier == "quick" else _shapes(tier)):
        for common in PAL[:2] if tier == "quick" else PAL:
            out.append(dict(op="update", shape=list(shape), pal=PAL, common=common))
    # filtered
    for shape in _shapes(tier):
        for common in PAL:
            out.append(dict(op="filtered", shape=list(shape), pal=PAL, common=common))
    # sliced / slices1d
    for common in PAL[:2]:
        for orders in ([0], [2], [[2, 0]], [[1]], [[0, 1, 2]], [None], [], [[1, 1]], [[2, 0, 2]]):
            out.append(dict(op="sliced", shape=[2, 3], pal=PAL, common=common, orders=orders))
        for orders in ([1, 0], [None, 1], [[1, 0], None], [0, [1]], [None, None], [[1], [0, 1]]):
            out.append(dict(op="sliced", shape=[2, 2, 2], pal=PAL[:2] + [5], common=common, orders=orders))
        out.append(dict(op="slices1d", shape=[2, 3], pal=PAL, common=common))
        out.append(dict(op="slices1d", shape=[2, 2, 2], pal=PAL[:2] + [5], common=common))
        out.append(dict(op="slices1d", shape=[3], pal=PAL, common=common))
    # reindexed
    maps = [None, {"0": 0, "1": 1, "2": 2}, {"0": 5, "1": 6, "2": 7}, {"0": 1, "1": 1, "2": 2}, {"0": 0, "1": 0, "2": 0},
            {"1": 2}, {"0": 2, "1": 0, "2": 0}, {"2": -3, "1": 300}]
    for shape in ([(3,), (2, 2)]):
        for common in PAL:
            for mi, m in enumerate(maps):
                if tier == "quick" and (mi + common + len(shape) + seed) % 2 and m is not None and mi not in (3, 6):
                    continue
                out.append(dict(op="reindexed", shape=list(shape), pal=PAL, common=common, mapping=m,
                                copy=bool(mi % 2), shift=(mi % 3 != 2), assume_unique=False))
    # collapsed
    precs = [[1, 0, 2], [2, 1], [0, 1], [1], [2, 0, 1], [1, 0, -1], [0]]
    for common in PAL:
        for pi, p in enumerate(precs):
            if tier == "quick" and (pi + common + seed) % 2 and pi not in (2, 5):
                continue
            out.append(dict(op="collapsed", shape=[2, 2], pal=PAL, common=common, precedence=p, mapping=None))
    out.append(dict(op="collapsed", shape=[2, 2], pal=PAL, common=0, precedence=[5, 0], mapping={"1": 5, "2": 0}))
    out.append(dict(op="collapsed", shape=[1, 3], pal=PAL, common=1, precedence=[2, 0], mapping=None))
    out.append(dict(op="collapsed", shape=[0, 2], pal=PAL, common=1, precedence=[2, 0], mapping=None))
    # copy
    for shape in [(3,), (2, 2)]:
        out.append(dict(op="copy", shape=list(shape), pal=PAL, common=1))
    # column_stack
    for c1, c2 in [(0, 0), (0, 1), (2, 1)]:
        for new in (None, 0, 2):
            for shapes in ([[2], [2]], [[2], [2, 2]], [[2, 2], [2]]):
                if tier == "quick" and (c1 + c2 + (new or 0) + len(shapes[0]) + seed) % 2:
                    continue
                out.append(dict(op="column_stack", shapes=shapes, pal=PAL, commons=[c1, c2], new=new, copy=bool((c1 + c2) % 2)))
    # entry-wise set updates
    for which in ("union_update", "intersection_update", "difference_update"):
        for shape in [(3,), (2, 2)]:
            out.append(dict(op=which, shape=list(shape), pal=PAL, common=0))
    # queries
    for shape in [(3,), (2, 2)]:
        for common in PAL[:2]:
            out.append(dict(op="queries", shape=list(shape), pal=PAL, common=common))
    # equality (C15 b)
    for shape in [(2,), (2, 2)]:
        for c1 in PAL[:2]:
            for c2 in PAL[:2]:
                out.append(dict(op="equality", shape=list(shape), pal=PAL[:2] + [2], common=c1, common2=c2))
    return out


MODE_OPS = {
    "C06": None,     # all
    "C07": {"shift_common", "append", "update", "filtered", "sliced", "slices1d", "reindexed", "collapsed", "copy", "column_stack",
            "union_update", "intersection_update", "difference_update"},
    "C15": {"shift_common", "append", "filtered", "collapsed", "equality", "reindexed"},
}


def configs_for(mode, tier, seed):
    cs = configs(tier, seed)
    keep = MODE_OPS[mode]
    out = []
    if mode == "C15":
        # eight cells in two columns: a value can be the most frequent overall while each of its per-column
        # entries is smaller than the common value's count (frequency must be tallied per value, not per entry)
        for common in PAL:
            cs.append(dict(op="shift_common", shape=[4, 2], pal=PAL, common=common, new=None))
        cs.append(dict(op="filtered", shape=[4, 2], pal=PAL, common=0))
        if tier == "thorough":
            cs.append(dict(op="filtered", shape=[4, 2], pal=PAL, common=2))
            cs.append(dict(op="append", shape=[2, 2], shape2=[2, 2], pal=PAL, common=0, common2=1))
    for c in cs:
        if keep is not None and c["op"] not in keep:
            continue
        if mode == "C06" and c["op"] == "equality":
            continue
        if mode == "C15" and c["op"] == "shift_common" and c["new"] is not None:
            continue
        out.append(c)
    return out


def _mapping(m):
    return None if m is None else {int(k): v for k, v in m.items()}


# ---------------------------------------------------------------- bodies
def run(cfg, eng, ctx, mode):
    C = IO.catii()
    op = cfg["op"]

    def path():
        conds = []
        body = BODIES[op]
        try:
            body(C, cfg, eng, ctx, mode, conds)
        except (Violation, Abort, Inconclusive, HarnessError):
            raise
        except Exception as ex:
            eng.assert_(False, "%s raised %s: %s" % (op, type(ex).__name__, str(ex)[:120]))
            return
        IO.discharge(eng, conds)
        ctx.end_path()

    eng.explore(path)


def _case(ctx, cfg, mode, denses, extra=None):
    def builder(model):
        c = dict(kind="indexop", mode=mode, op=cfg["op"], cfg=cfg, dense=[d.ev(model) for d in denses])
        if extra:
            c.update(extra(model))
        return c
    ctx.case_builder = builder


def b_shift_common(C, cfg, eng, ctx, mode, conds):
    d = SymDense(eng, "a", cfg["shape"], cfg["pal"])
    _case(ctx, cfg, mode, [d])
    ix = d.index(C, cfg["common"])
    new = cfg["new"]
    if new is None:
        ix.shift_common()
    else:
        ix.shift_common(new)
    if mode == "C06":
        dense_equal(alpha(ix), d.cells, "shift_common", conds)
        if new is not None:
            conds.append(("shift_common(v) sets the common value", z3.BoolVal(ix.common == new)))
    elif mode == "C07":
        invariant(C, ix, "after shift_common", conds)
    else:
        most_frequent(ix, cfg["pal"], "after shift_common()", conds)


def b_append(C, cfg, eng, ctx, mode, conds):
    a = SymDense(eng, "a", cfg["shape"], cfg["pal"])
    b = SymDense(eng, "b", cfg["shape2"], cfg["pal"])
    _case(ctx, cfg, mode, [a, b])
    ia, ib = a.index(C, cfg["common"]), b.index(C, cfg["common2"])
    snap = snapshot(ib)
    ia.append(ib)
    n1 = cfg["shape"][0]
    want = dict(a.cells)
    for idx, v in b.cells.items():
        want[(idx[0] + n1,) + idx[1:]] = v
    if mode == "C06":
        ok = isinstance(ia.shape, tuple) and tuple(ia.shape) == (n1 + cfg["shape2"][0],) + tuple(cfg["shape"][1:])
        conds.append(("append: shape", z3.BoolVal(bool(ok))))
        if ok:
            dense_equal(alpha(ia), want, "append", conds)
        unchanged(ib, snap, "append", conds)
    elif mode == "C07":
        invariant(C, ia, "after append", conds)
    else:
        most_frequent(ia, cfg["pal"], "after append", conds)
        # the result must compare equal to its directly built twin when the same common value is chosen
        tw = SymDenseView(want, (n1 + cfg["shape2"][0],) + tuple(cfg["shape"][1:]), cfg["pal"]).index(C, ia.common)
        r = ia == tw
        rv = r is True or (r is not False and bool(r))
        conds.append(("append result == directly built twin", z3.BoolVal(rv)))
        ne = ia != tw
        nev = ne if isinstance(ne, bool) else bool(ne)
        conds.append(("(result != twin) is not (result == twin)", z3.BoolVal(nev == (not rv))))


class SymDenseView(SymDense):
    """A SymDense over existing cell terms (no new variables)."""

    def __init__(self, cells, shape, palette):
        self.shape = tuple(shape)
        self.palette = list(palette)
        self.cells = dict(cells)


def b_update(C, cfg, eng, ctx, mode, conds):
    d = SymDense(eng, "a", cfg["shape"], cfg["pal"])
    shape = tuple(cfg["shape"])
    assign = {idx: z3.Bool("as_%s" % "_".join(map(str, idx))) for idx in d.cells}
    newv = {}
    for idx in d.cells:
        v = z3.Int("nv_%s" % "_".join(map(str, idx)))
        eng.assume(z3.Or([v == p for p in cfg["pal"]]))
        newv[idx] = v
    ix = d.index(C, cfg["common"])
    # the caller's partial entries: {(value, col...): sorted row ids} for the assigned cells (may contain the common value)
    entries = {}
    N = shape[0]
    for sub in itertools.product(*[range(e) for e in shape[1:]]):
        for p in cfg["pal"]:
            o = rnp.empty(N, dtype=object)
            for r in range(N):
                o[r] = mkbool(z3.And(assign[(r,) + sub], newv[(r,) + sub] == p))
            (rows,) = snp.ndarray(o, bool).nonzero()
            n = rows.n if rows.n is not None else rows.o.shape[0]
            if bool(S.e_lt(0, n)):
                entries[(p,) + sub] = rows.astype(rnp.uint32)
    esnap = dict((k, (v, v.o.copy())) for k, v in entries.items())

    def extra(model):
        return dict(assign=[[list(k), S.ev(model, v)] for k, v in assign.items()], newv=[[list(k), S.ev(model, v)] for k, v in newv.items()])
    _case(ctx, cfg, mode, [d], extra)
    ix.update(entries)
    want = {idx: z3.If(assign[idx], newv[idx], d.cells[idx]) for idx in d.cells}
    if mode == "C06":
        dense_equal(alpha(ix), want, "update", conds)
        conds.append(("update does not shift the common value", z3.BoolVal(ix.common == cfg["common"])))
        ok = set(entries.keys()) == set(esnap.keys()) and all(entries[k] is esnap[k][0] for k in esnap)
        conds.append(("update: the given entries mapping is unchanged", z3.BoolVal(bool(ok))))
        for k, (arr, before) in esnap.items():
            for x, y in zip(before, arr.o):
                if x is not y:
                    conds.append(("update: the given entry %r is unchanged" % (k,), bt(S.e_eq(x, y))))
    elif mode == "C07":
        invariant(C, ix, "after update", conds)


def b_filtered(C, cfg, eng, ctx, mode, conds):
    d = SymDense(eng, "a", cfg["shape"], cfg["pal"])
    shape = tuple(cfg["shape"])
    N = shape[0]
    mbits = [z3.Bool("m%d" % r) for r in range(N)]

    def extra(model):
        return dict(mask=[S.ev(model, b) for b in mbits])
    _case(ctx, cfg, mode, [d], extra)
    ix = d.index(C, cfg["common"])
    snap = snapshot(ix)
    o = rnp.empty(N, dtype=object)
    for r in range(N):
        o[r] = SBool(mbits[r])
    mask = snp.ndarray(o, bool)
    mo = mask.o.copy()
    newlen = eng.concretize(z3.Sum([z3.If(b, 1, 0) for b in mbits] + [IV(0)]))
    res = ix.filtered(mask, newlen)
    if mode == "C06":
        ok = isinstance(res.shape, tuple) and tuple(res.shape) == (newlen,) + shape[1:]
        conds.append(("filtered: shape", z3.BoolVal(bool(ok))))
        if ok:
            a = alpha(res)
            cnt = IV(0)
            for r in range(N):
                for k in range(newlen):
                    for sub in itertools.product(*[range(e) for e in shape[1:]]):
                        conds.append(("filtered: row %d -> %d" % (r, k), z3.Implies(z3.And(mbits[r], cnt == k), a[(k,) + sub] == d.cells[(r,) + sub])))
                cnt = cnt + z3.If(mbits[r], 1, 0)
        unchanged(ix, snap, "filtered", conds)
        conds.append(("filtered: the mask is unchanged", z3.BoolVal(all(x is y for x, y in zip(mo, mask.o)))))
        for k, arr in dict.items(res):
            for k2, (arr2, _, _) in snap[0].items():
                conds.append(("filtered: result shares no storage with the receiver", z3.BoolVal(not shares_memory(arr, arr2))))
    elif mode == "C07":
        invariant(C, res, "after filtered", conds)
    else:
        most_frequent(res, cfg["pal"], "after filtered", conds)


def _slice_model(d, orders):
    """Expected dense cells and shape of sliced(*orders)."""
    shape = d.shape
    axes = []       # per higher axis: list of source coordinates, or an int (axis dropped)
    for i in range(1, len(shape)):
        o = orders[i - 1] if i - 1 < len(orders) else None
        if o is None:
            axes.append(list(range(shape[i])))
        elif isinstance(o, int):
            axes.append(o)
        else:
            axes.append(list(o))
    new_shape = [shape[0]] + [len(a) for a in axes if not isinstance(a, int)]
    want = {}
    for r in range(shape[0]):
        kept = [a for a in axes if not isinstance(a, int)]
        for newsub in itertools.product(*[range(len(a)) for a in kept]):
            src = []
            ki = 0
            for a in axes:
                if isinstance(a, int):
                    src.append(a)
                else:
                    src.append(a[newsub[ki]])
                    ki += 1
            want[(r,) + tuple(newsub)] = d.cells[(r,) + tuple(src)]
    return want, tuple(new_shape)


def b_sliced(C, cfg, eng, ctx, mode, conds):
    d = SymDense(eng, "a", cfg["shape"], cfg["pal"])
    _case(ctx, cfg, mode, [d])
    ix = d.index(C, cfg["common"])
    snap = snapshot(ix)
    orders = [list(o) if isinstance(o, list) else o for o in cfg["orders"]]
    res = ix.sliced(*orders)
    want, new_shape = _slice_model(d, orders)
    if mode == "C06":
        ok = isinstance(res.shape, tuple) and tuple(res.shape) == new_shape
        conds.append(("sliced: shape %r expected %r" % (res.shape, new_shape), z3.BoolVal(bool(ok))))
        if ok:
            dense_equal(alpha(res), want, "sliced", conds)
        conds.append(("sliced keeps the common value", z3.BoolVal(res.common == cfg["common"])))
        unchanged(ix, snap, "sliced", conds)
    elif mode == "C07":
        invariant(C, res, "after sliced", conds)


def b_slices1d(C, cfg, eng, ctx, mode, conds):
    d = SymDense(eng, "a", cfg["shape"], cfg["pal"])
    _case(ctx, cfg, mode, [d])
    ix = d.index(C, cfg["common"])
    snap = snapshot(ix)
    got = list(ix.slices1d())
    shape = tuple(cfg["shape"])
    expect_coords = list(itertools.product(*[range(e) for e in shape[1:]]))
    if mode == "C06":
        coords = [tuple(c) for c, s in got]
        # every column slice exactly once, labelled with its own higher coordinates (iteration order is not part of the property)
        conds.append(("slices1d yields every column slice exactly once: %r" % (coords,), z3.BoolVal(sorted(coords) == expect_coords)))
        if sorted(coords) == expect_coords:
            for c, s in got:
                ok = isinstance(s.shape, tuple) and tuple(s.shape) == (shape[0],)
                conds.append(("slices1d: slice %r is 1-D with all rows" % (c,), z3.BoolVal(bool(ok))))
                if ok:
                    dense_equal(alpha(s), {(r,): d.cells[(r,) + tuple(c)] for r in range(shape[0])}, "slices1d %r" % (c,), conds)
        unchanged(ix, snap, "slices1d", conds)
    elif mode == "C07":
        for c, s in got:
            invariant(C, s, "slice %r of slices1d" % (tuple(c),), conds)


def b_reindexed(C, cfg, eng, ctx, mode, conds):
    d = SymDense(eng, "a", cfg["shape"], cfg["pal"])
    _case(ctx, cfg, mode, [d])
    ix = d.index(C, cfg["common"])
    snap = snapshot(ix)
    m = _mapping(cfg["mapping"])
    m_before = None if m is None else dict(m)
    res = ix.reindexed(m, copy=cfg["copy"], shift=cfg["shift"], assume_unique=cfg["assume_unique"])
    if m is None:
        # default: k-th smallest listed value -> k-1; the common value is left as it is; the set of listed values is a path fact
        listed = sorted({k[0] for k in dict.keys(ix)})
        eff = {v: i for i, v in enumerate(listed)}
    else:
        eff = m
    f = lambda t: _apply_map(eff, t, cfg["pal"])
    want = {idx: f(v) for idx, v in d.cells.items()}
    if mode == "C06":
        ok = isinstance(res.shape, tuple) and tuple(res.shape) == tuple(cfg["shape"])
        conds.append(("reindexed: shape", z3.BoolVal(bool(ok))))
        if ok:
            dense_equal(alpha(res), want, "reindexed", conds)
        unchanged(ix, snap, "reindexed", conds)
        if m is not None:
            conds.append(("reindexed: the mapping is unchanged", z3.BoolVal(m == m_before)))
        if cfg["copy"]:
            for k, arr in dict.items(res):
                for k2, (arr2, _, _) in snap[0].items():
                    conds.append(("reindexed(copy=True) shares no storage with the receiver", z3.BoolVal(not shares_memory(arr, arr2))))
    elif mode == "C07":
        invariant(C, res, "after reindexed", conds)
    else:
        # library-chosen normalisation happens only when coordinates were merged and shift is requested
        pass


def _apply_map(m, t, pal):
    r = t
    for p in pal:
        if p in m:
            r = z3.If(t == p, IV(m[p]), r)
    return r


def b_collapsed(C, cfg, eng, ctx, mode, conds):
    d = SymDense(eng, "a", cfg["shape"], cfg["pal"])
    _case(ctx, cfg, mode, [d])
    ix = d.index(C, cfg["common"])
    snap = snapshot(ix)
    prec = list(cfg["precedence"])
    prec_before = list(prec)
    m = _mapping(cfg["mapping"])
    res = ix.collapsed(prec, m)
    shape = tuple(cfg["shape"])
    N, ncols = shape[0], shape[1]
    f = (lambda t: _apply_map(m, t, cfg["pal"])) if m is not None else (lambda t: t)
    want = {}
    for r in range(N):
        cells = [f(d.cells[(r, c)]) for c in range(ncols)]
        t = IV(prec[-1])
        for v in reversed(prec[:-1]):
            t = z3.If(z3.Or([x == v for x in cells]), IV(v), t)
        # the first listed value present in the row, else the last listed
        want[(r,)] = t
    if mode == "C06":
        ok = isinstance(res.shape, tuple) and tuple(res.shape) == (N,)
        conds.append(("collapsed: shape", z3.BoolVal(bool(ok))))
        if ok:
            dense_equal(alpha(res), want, "collapsed", conds)
        unchanged(ix, snap, "collapsed", conds)
        conds.append(("collapsed: the precedence list is unchanged", z3.BoolVal(prec == prec_before)))
    elif mode == "C07":
        invariant(C, res, "after collapsed", conds)
    else:
        most_frequent(res, sorted(set(prec)), "after collapsed", conds)


def b_copy(C, cfg, eng, ctx, mode, conds):
    d = SymDense(eng, "a", cfg["shape"], cfg["pal"])
    _case(ctx, cfg, mode, [d])
    ix = d.index(C, cfg["common"])
    snap = snapshot(ix)
    res = ix.copy()
    if mode == "C06":
        dense_equal(alpha(res), d.cells, "copy", conds)
        conds.append(("copy keeps common and shape", z3.BoolVal(res.common == ix.common and res.shape == ix.shape and res is not ix)))
        unchanged(ix, snap, "copy", conds)
        for k, arr in dict.items(res):
            for k2, (arr2, _, _) in snap[0].items():
                conds.append(("copy shares no storage with its source", z3.BoolVal(not shares_memory(arr, arr2))))
    elif mode == "C07":
        invariant(C, res, "after copy", conds)


def b_column_stack(C, cfg, eng, ctx, mode, conds):
    ds = [SymDense(eng, "s%d" % i, shp, cfg["pal"]) for i, shp in enumerate(cfg["shapes"])]
    _case(ctx, cfg, mode, ds)
    ixs = [d.index(C, c) for d, c in zip(ds, cfg["commons"])]
    snaps = [snapshot(ix) for ix in ixs]
    lst = list(ixs)
    res = C.iindexes.column_stack(lst, new_common=cfg["new"], copy=cfg["copy"])
    N = cfg["shapes"][0][0]
    want = {}
    col = 0
    for d in ds:
        if len(d.shape) == 1:
            for r in range(N):
                want[(r, col)] = d.cells[(r,)]
            col += 1
        else:
            for c in range(d.shape[1]):
                for r in range(N):
                    want[(r, col + c)] = d.cells[(r, c)]
            col += d.shape[1]
    if mode == "C06":
        ok = isinstance(res.shape, tuple) and tuple(res.shape) == (N, col)
        conds.append(("column_stack: shape", z3.BoolVal(bool(ok))))
        if ok:
            dense_equal(alpha(res), want, "column_stack", conds)
        if cfg["new"] is not None:
            conds.append(("column_stack uses the requested common value", z3.BoolVal(res.common == cfg["new"])))
        for ix, sn in zip(ixs, snaps):
            unchanged(ix, sn, "column_stack", conds)
        conds.append(("column_stack: the list of inputs is unchanged", z3.BoolVal(len(lst) == len(ixs) and all(x is y for x, y in zip(lst, ixs)))))
        if cfg["copy"]:
            for k, arr in dict.items(res):
                for sn in snaps:
                    for k2, (arr2, _, _) in sn[0].items():
                        conds.append(("column_stack(copy=True) shares no storage with its inputs", z3.BoolVal(not shares_memory(arr, arr2))))
    elif mode == "C07":
        invariant(C, res, "after column_stack", conds)


def b_setop(which):
    def body(C, cfg, eng, ctx, mode, conds):
        a = SymDense(eng, "a", cfg["shape"], cfg["pal"])
        b = SymDense(eng, "b", cfg["shape"], cfg["pal"])
        _case(ctx, cfg, mode, [a, b])
        ia, ib = a.index(C, cfg["common"]), b.index(C, cfg["common"])
        snap = snapshot(ib)
        keys = set(dict.keys(ia)) | set(dict.keys(ib))
        pre = {k: dict.get(ia, k) for k in keys}
        getattr(ia, which)(ib)
        N = cfg["shape"][0]
        for k in keys:
            A, B = pre[k], dict.get(ib, k)
            R = dict.get(ia, k)
            for r in range(N):
                ina = IO.member(A, r) if A is not None else z3.BoolVal(False)
                inb = IO.member(B, r) if B is not None else z3.BoolVal(False)
                inr = IO.member(R, r) if R is not None else z3.BoolVal(False)
                if which == "union_update":
                    w = z3.Or(ina, inb)
                elif which == "intersection_update":
                    w = z3.And(ina, inb)
                else:
                    w = z3.And(ina, z3.Not(inb))
                if mode == "C06":
                    conds.append(("%s: entry %r row %d" % (which, k, r), inr == w))
        if mode == "C06":
            conds.append(("%s: no new keys" % which, z3.BoolVal(set(dict.keys(ia)) <= keys)))
            unchanged(ib, snap, which, conds)
        elif mode == "C07":
            invariant(C, ia, "after " + which, conds, exclusivity=(which != "union_update"))
    return body


def b_queries(C, cfg, eng, ctx, mode, conds):
    d = SymDense(eng, "a", cfg["shape"], cfg["pal"])
    _case(ctx, cfg, mode, [d])
    ix = d.index(C, cfg["common"])
    snap = snapshot(ix)
    shape = tuple(cfg["shape"])
    N = shape[0]
    cols = [()] if len(shape) == 1 else [(c,) for c in range(shape[1])]
    for sub in cols:
        cr = ix.common_rowids(*sub)
        for r in range(N):
            conds.append(("common_rowids%r row %d" % (sub, r), IO.member(cr, r) == (d.cells[(r,) + sub] == cfg["common"])))
        conds.append(("common_rowids dtype", z3.BoolVal(cr.d == rnp.dtype(rnp.uint32))))
        g = ix.get((cfg["common"],) + sub, None, force=True)
        anyc = z3.Or([d.cells[(r,) + sub] == cfg["common"] for r in range(N)] + [z3.BoolVal(False)])
        conds.append(("get(common, force=True) is None iff no common row", z3.BoolVal(g is None) == z3.Not(anyc)))
    items = list(ix.items(force=True))
    td = ix.to_dict(force=True)
    conds.append(("items(force=True) lists every explicit entry then one common entry per column",
                  z3.BoolVal([k for k, v in items] == list(dict.keys(ix)) + [(cfg["common"],) + sub for sub in cols])))
    for k, v in items[len(dict.keys(ix)):]:
        for r in range(N):
            conds.append(("items(force=True) common rows", IO.member(v, r) == (d.cells[(r,) + tuple(k[1:])] == cfg["common"])))
    conds.append(("to_dict(force=True) keys", z3.BoolVal(list(td.keys()) == [k for k, v in items] and all(isinstance(v, list) for v in td.values()))))
    unchanged(ix, snap, "queries", conds)


def b_equality(C, cfg, eng, ctx, mode, conds):
    a = SymDense(eng, "a", cfg["shape"], cfg["pal"])
    b = SymDense(eng, "b", cfg["shape"], cfg["pal"])
    _case(ctx, cfg, mode, [a, b])
    ia, ib = a.index(C, cfg["common"]), b.index(C, cfg["common2"])
    same_dense = z3.And([a.cells[k] == b.cells[k] for k in a.cells] + [z3.BoolVal(True)])
    should = z3.And(same_dense, z3.BoolVal(cfg["common"] == cfg["common2"]))
    eq = ia == ib
    eqv = eq if isinstance(eq, bool) else bool(eq)
    conds.append(("a == b iff shape, common and dense content coincide", z3.BoolVal(eqv) == should))
    ne = ia != ib
    nev = ne if isinstance(ne, bool) else bool(ne)
    conds.append(("(a != b) is not (a == b)", z3.BoolVal(nev == (not eqv))))
    eq2 = ib == ia
    conds.append(("== is symmetric", z3.BoolVal((eq2 if isinstance(eq2, bool) else bool(eq2)) == eqv)))
    r = ia == ia
    conds.append(("== is reflexive", z3.BoolVal(r if isinstance(r, bool) else bool(r))))
    conds.append(("comparison with a non-index is False", z3.BoolVal((ia == {3: "hi"}) is False and (ia == 5) is False)))
    ie = C.iindexes.iindex({}, cfg["common"], tuple(cfg["shape"]))      # every cell common: no entries at all
    for what, left, x in [("a dict", ia, {3: "hi"}), ("an int", ia, 5), ("None", ia, None), ("an empty dict", ia, {}),
                          ("an empty dict (entry-less index)", ie, {}), ("a list", ie, [])]:
        e1, n1 = (left == x), (left != x)
        e2, n2 = (x == left), (x != left)
        conds.append(("== %s is False and != is its negation, both ways round" % what,
                      z3.BoolVal(e1 is False and n1 is True and e2 is False and n2 is True)))
    other = a.index(C, cfg["common"])
    r2 = ia == other
    conds.append(("an index equals an independently built index of the same content", z3.BoolVal(r2 if isinstance(r2, bool) else bool(r2))))
    shp = tuple(cfg["shape"])
    ic = C.iindexes.iindex(dict((k, v) for k, v in dict.items(ia)), cfg["common"], (shp[0] + 1,) + shp[1:])
    r3 = ia == ic
    conds.append(("different shape -> unequal", z3.BoolVal(not (r3 if isinstance(r3, bool) else bool(r3)))))


BODIES = {"shift_common": b_shift_common, "append": b_append, "update": b_update, "filtered": b_filtered, "sliced": b_sliced,
          "slices1d": b_slices1d, "reindexed": b_reindexed, "collapsed": b_collapsed, "copy": b_copy, "column_stack": b_column_stack,
          "union_update": b_setop("union_update"), "intersection_update": b_setop("intersection_update"),
          "difference_update": b_setop("difference_update"), "queries": b_queries, "equality": b_equality}
