"""C10 - INDX save then load is the identity."""
from harness import indx

ID = "C10"
LEVEL = "model_checking"
REWRITES = ["len/type/int/isinstance -> engine-aware versions (identity on concrete objects)"]
STUBS = ["file object over a byte-term list", "struct.pack/unpack/unpack_from = little-endian Extract/Concat with range errors",
         "mmap: ValueError when length exceeds the file size", "numpy.ndarray(buffer=): TypeError when the buffer is too small",
         "ndarray.tofile appends little-endian bytes", "NumPy integer scalars as BitVec(80) with NEP-50 kinds"]
ASSUMPTIONS = ["coordinates and common value in [0, 2^63), row ids strictly increasing in [0, 2^32), keys pairwise distinct (dict keys)",
               "number of entries, arity and array lengths beyond the bounds are outside the claim (the layout is uniform in all three)"]
ENGINE_OPTS = {"quick": dict(wall_s=900), "thorough": dict(wall_s=3000)}


def bounds(tier):
    return {"entries": "<=2" if tier == "quick" else "<=3 (arity<=3), <=2 (arity 4)", "arity": "<=2" if tier == "quick" else "<=4",
            "rowid array length": "0..2 symbolic row ids; arange(n) for n around 2^8 (thorough: and 2^16) (concrete row ids, symbolic keys)", "magnitudes": "all values in range (solver variables); every index word size reached as a path"}


def configs(tier, seed):
    out = indx.structures(tier, seed)
    # row-id arrays whose *length* sits on a word boundary while no row id reaches it (arange(256), arange(65536)): the row ids
    # are concrete (0..len-1), keys and common value stay symbolic; an entry before and after shows a shifted association
    for lens in ([[256], [256, 1], [1, 256], [255, 2], [257]]) + [list(x) for x in (() if tier == "quick" else ([65536, 1], [1, 65536]))]:
        out.append(dict(entries=len(lens), arity=1, lens=list(lens), concrete_rows=True))
    return out


def explore(cfg, eng, ctx):
    indx.explore_roundtrip(cfg, eng, ctx)


functions = indx.functions
