"""C10 - INDX save then load is the identity."""
from harness import indx

ID = "C10"
LEVEL = "model_checking"
REWRITES = ["len/type/int/isinstance -> engine-aware versions (identity on concrete objects)"]
STUBS = ["file object over a byte-term list", "struct.pack/unpack/unpack_from = little-endian Extract/Concat with range errors",
         "mmap: ValueError when length exceeds the file size", "numpy.ndarray(buffer=): TypeError when the buffer is too small",
         "ndarray.tofile appends little-endian bytes", "NumPy integer scalars as BitVec(80) with NEP-50 kinds"]
ASSUMPTIONS = ["coordinates and common value in [0, 2^63), row ids strictly increasing in [0, 2^32), keys pairwise distinct (dict keys)",
               "number of entries, arity and array lengths beyond the bounds are outside the claim (the layout is uniform in all three)"]
ENGINE_OPTS = {"quick": dict(wall_s=900), "thorough": dict(wall_s=3000)}


def bounds(tier):
    return {"entries": "<=2" if tier == "quick" else "<=3 (arity<=3), <=2 (arity 4)", "arity": "<=2" if tier == "quick" else "<=4",
            "rowid array length": "0..2", "magnitudes": "all values in range (solver variables); every index word size reached as a path"}


def configs(tier, seed):
    return indx.structures(tier, seed)


def explore(cfg, eng, ctx):
    indx.explore_roundtrip(cfg, eng, ctx)


functions = indx.functions
