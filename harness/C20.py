"""C20 - an interrupt raised at any cancellation point stops the cube cleanly.
The fault index (serial) / the subset of raising invocations (pooled) are solver variables."""
import itertools

import numpy as rnp
import z3

from harness import aggs, C03, C05
from symex import loader
from symex import scalars as S
from symex.engine import Violation, Abort, Inconclusive, HarnessError
from symex.scalars import SInt, SBool

ID = "C20"
LEVEL = "model_checking"
REWRITES = loader.REWRITES
STUBS = C03.STUBS + ["pool = stub: map(f, items) calls f once per item (in order), returns after all calls finished and re-raises the first raised exception; close() no-op"]
ASSUMPTIONS = C03.ASSUMPTIONS + ["pooled mode is forced by setting cube.parallel (the size threshold needs 2^30 cells)",
                                 "the real ThreadPool's worker management is outside the claim (used only in replays)"]
ENGINE_OPTS = C03.ENGINE_OPTS


class Interrupt(Exception):
    pass


def bounds(tier):
    return {"sub-cubes K": "1, 2, 3 (scaffolds (), (2,), (3,))" if tier == "quick" else "1, 2, 3, 4, 6 (adds (2,)+(2,) and (2,3))",
            "fault": "symbolic invocation index in [0, K] (serial); symbolic subset of invocations (pooled)", "N": 2, "E": 2,
            "aggregates": "count, sum, mean", "cube types": "ccube, xcube"}


def configs(tier, seed):
    out = []
    scaffolds = [[[]], [[2]], [[3]]]
    if tier == "thorough":
        scaffolds += [[[2], [2]], [[2, 3]]]
    i = seed
    for dims in scaffolds:
        for agg in ("count", "sum", "mean"):
            for side in ("ccube", "xcube"):
                for pooled in (False, True):
                    i += 1
                    K = 1
                    for e in dims:
                        for x in e:
                            K *= x
                    out.append(C03._base(2, dims, 2, [i % 2] * len(dims), agg, weights=["none", "array"][i % 2], ignore=bool((i // 2) % 2),
                                         fmt="nan", side=side, pooled=pooled, K_sub=K))
    # an interrupt that is not an Exception subclass (KeyboardInterrupt-like): serial and pooled
    for side in ("ccube", "xcube"):
        for pooled in (False, True):
            out.append(C03._base(2, [[2]], 2, [0], "count", weights="none", ignore=False, fmt="nan", side=side, pooled=pooled, K_sub=2,
                                 exc_base=True))
    return out


class InterruptBase(BaseException):
    """An interrupt that does not derive from Exception (as KeyboardInterrupt, SystemExit)."""


class PoolHang(BaseException):
    """multiprocessing.pool's worker loop only catches Exception: any other exception kills the worker thread, the task's
    result is never set and map() never returns."""


class StubPool:
    def __init__(self, n=None):
        pass

    def map(self, f, items, chunksize=None):
        if chunksize is not None and chunksize < 1:
            if chunksize < 0:
                raise ValueError("Stop argument for islice() must be None or an integer: 0 <= x <= sys.maxsize.")
            items = []          # a chunk size of 0 yields no chunk: nothing runs
        excs = []
        for it_ in list(items):
            try:
                f(it_)
            except (Violation, Abort, Inconclusive):
                raise
            except HarnessError:
                raise
            except Exception as ex:
                excs.append(ex)
            except BaseException as ex:
                raise PoolHang("%s raised in a worker task" % type(ex).__name__)
        if excs:
            raise excs[0]
        return []

    def map_async(self, f, items, chunksize=None, callback=None, error_callback=None):
        """Tasks run at once (sequentially); the handle behaves as multiprocessing.pool.MapResult: wait() never raises,
        get() re-raises the first exception of a task."""
        try:
            value, exc = self.map(f, items), None
        except Exception as ex:
            value, exc = None, ex

        class Handle:
            def wait(self, timeout=None):
                return None

            def ready(self):
                return True

            def successful(self):
                return exc is None

            def get(self, timeout=None):
                if exc is not None:
                    raise exc
                return value
        return Handle()

    def imap(self, f, items, chunksize=1):
        for it_ in list(items):
            yield f(it_)

    imap_unordered = imap

    def close(self):
        pass

    def terminate(self):
        pass

    def join(self):
        pass

    def __enter__(self):
        return self

    def __exit__(self, *a):
        return False


def install_pool(C):
    import types
    C.ccubes.multiprocessing = types.SimpleNamespace(pool=types.SimpleNamespace(ThreadPool=StubPool))
    C.xcubes.xcube.pool_class = StubPool


def explore(cfg, eng, ctx):
    C = aggs.catii("summary")
    install_pool(C)
    agg, ignore, side, pooled, K = cfg["agg"], cfg["ignore"], cfg["side"], cfg["pooled"], cfg["K_sub"]
    D = len(cfg["dims"])
    ishape = tuple([cfg["E"]] * D)

    exc_cls = InterruptBase if cfg.get("exc_base") else Interrupt
    if cfg.get("exc_base") and pooled and "F29-pooled-interrupt-not-an-exception-subclass" in ctx.excl:
        ctx.notes["vacuous_ok"] = True      # the whole configuration is the recorded finding's region
        return

    def path():
        data = aggs.Data(eng, cfg)
        fault = z3.Int("fault")
        eng.assume(fault >= 0, fault <= K)
        subset = [z3.Bool("raise%d" % j) for j in range(K)]

        def builder(model):
            c = data.case(model)
            c.update(kind="interrupt", agg=agg, ignore=ignore, fmt="nan", commons=cfg["commons"], ishape=list(ishape), side=side,
                     pooled=pooled, K_sub=K, fault=S.ev(model, fault), subset=[S.ev(model, b) for b in subset],
                     exc_base=bool(cfg.get("exc_base")))
            return c
        ctx.case_builder = builder
        fact, weights = data.fact(), data.weights()
        rma = float("nan")
        state = {"calls": 0}

        def check_interrupt():
            j = state["calls"]
            state["calls"] += 1
            hit = SBool(subset[j]) if pooled and j < K else S.mkbool(fault == j)
            if bool(hit):
                raise exc_cls(j)
        try:
            if side == "ccube":
                cube = C.ccubes.ccube(data.index_dims(C, cfg["commons"]), interacting_shape=ishape)
                mod, prefix = C.ffuncs, "ffunc_"
            else:
                cube = C.xcubes.xcube(data.dense_dims(), interacting_shape=ishape)
                mod, prefix = C.xfuncs, "xfunc_"
            cls = getattr(mod, prefix + agg)
            f = cls(weights, None, ignore, rma) if agg == "count" else cls(fact, weights, ignore, rma)
            cube.parallel = pooled
            cube.check_interrupt = check_interrupt
        except (Violation, Abort, Inconclusive, HarnessError):
            raise
        except Exception as ex:
            eng.assert_(False, "construction raised %s: %s" % (type(ex).__name__, str(ex)[:100]))
            return
        raised = None
        try:
            cube.calculate([f])
        except (Interrupt, InterruptBase) as ex:
            raised = ex
        except PoolHang as ex:
            eng.assert_(False, "pooled calculate never returns: %s" % ex)
            return
        except (Violation, Abort, Inconclusive, HarnessError):
            raise
        except Exception as ex:
            eng.assert_(False, "calculate raised %s instead of propagating the interrupt: %s" % (type(ex).__name__, str(ex)[:100]))
            return
        n = state["calls"]
        if pooled:
            should = z3.Or(subset)
            eng.assert_(z3.BoolVal(raised is not None) == should, "pooled: interrupt %s" % ("swallowed" if raised is None else "raised without a raising invocation"))
            eng.assert_(z3.BoolVal(n == K), "pooled: callback consulted %d times for %d sub-cubes" % (n, K))
        else:
            eng.assert_(z3.BoolVal(raised is not None) == (fault < K), "serial: interrupt %s" % ("swallowed" if raised is None else "raised spuriously"))
            eng.assert_(z3.IntVal(n) == z3.If(fault < K, fault + 1, z3.IntVal(K)), "serial: callback consulted %d times" % n)
        # the same cube and aggregate objects must be usable again and give correct results
        cube.check_interrupt = None
        try:
            again = cube.calculate([f])[0]
        except (Violation, Abort, Inconclusive, HarnessError):
            raise
        except Exception as ex:
            eng.assert_(False, "second evaluation raised %s: %s" % (type(ex).__name__, str(ex)[:100]))
            return
        cs = []
        aggs.compare(data, again, "nan", agg, ignore, ishape, side, cs)
        aggs.assert_all(eng, cs, "evaluation after an interrupt differs from a correct evaluation")
        ctx.end_path()

    eng.explore(path)


def functions():
    return loader.function_info("ccubes.py", ["ccube.calculate"]) + loader.function_info("xcubes.py", ["xcube.calculate"])
