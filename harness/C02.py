"""C02 - count cube equals the brute-force contingency table."""
import itertools
import json

import z3

from harness import cubes
from symex import loader
from symex import scalars as S
from symex.engine import Violation, Abort
from symex.scalars import rparts, bt

ID = "C02"
LEVEL = "model_checking"
REWRITES = loader.REWRITES
STUBS = ["NumPy shim (object arrays, shadow dtype/shape)", loader.SUMMARY_STUB]
ASSUMPTIONS = ["dimensions are well-formed indexes (C07's invariant)", "N symbolic, N*scaffold < 2^30 (pooling off; pooled mode is C16)",
               "uncommon rows per entry bounded by the cap; N itself unbounded below 2^30",
               "float64 modelled as exact rationals + IEEE tags (counts are integers: exact)"]
ENGINE_OPTS = {"quick": dict(wall_s=1500), "thorough": dict(wall_s=3400)}
FORMATS = ["nan", "pair", "zero"]


def bounds(tier):
    return {"D": "0..3 one-axis, plus (N,2) and (N,2,2) dimensions at D<=2" if tier == "quick" else "0..4",
            "E": "3 (2 at D=4); explicit shape padded by one; inferred shape", "cap": "2 (D<=2), 1 beyond",
            "return_missing_as": FORMATS, "key presence": "all subsets for one-axis D<=2, covering subset otherwise"}


def _patterns(keys, full, seed):
    pats = list(itertools.product((True, False), repeat=len(keys)))
    if full or len(keys) <= 4:
        return pats
    keep = [p for p in pats if sum(1 for x in p if not x) <= 1]
    keep.append(tuple(False for _ in keys))
    rest = [p for p in pats if p not in keep]
    step = max(1, len(rest) // 4)
    keep += rest[seed % step::step][:4]
    return keep


def code_constants():
    """Integer literals between 8 and 64 in ccubes.py (thresholds, block sizes); cf. harness/kernels.py."""
    import ast, os
    from symex import replay
    try:
        tree = ast.parse(open(os.path.join(replay.src_dir(), "ccubes.py")).read())
    except Exception:
        return []
    return sorted({n.value for n in ast.walk(tree)
                   if isinstance(n, ast.Constant) and isinstance(n.value, int) and not isinstance(n.value, bool) and 8 <= n.value <= 64})


def configs(tier, seed):
    out = []
    E = 3
    plans = []      # (extras per dim, cap, commons list, formats, shape modes)
    if tier == "quick":
        plans.append(([()], 2, [(0,), (1,), (2,)], FORMATS, ["explicit", "inferred", "padded"]))
        plans.append(([(), ()], 2, list(itertools.product(range(E), repeat=2)), ["nan"], ["explicit"]))
        plans.append(([(), ()], 1, [(0, 0), (1, 2)], ["pair", "zero"], ["inferred"]))
        plans.append(([(), (), ()], 1, [(0, 0, 0), (1, 1, 1), (2, 0, 1)], ["nan"], ["explicit"]))
        plans.append(([(2,), ()], 1, [(0, 0), (1, 2)], ["nan"], ["explicit"]))
        plans.append(([(2, 2)], 1, [(0,), (2,)], ["pair"], ["explicit"]))
    else:
        plans.append(([()], 3, [(0,), (1,), (2,)], FORMATS, ["explicit", "inferred", "padded"]))
        plans.append(([(), ()], 2, list(itertools.product(range(E), repeat=2)), FORMATS, ["explicit", "inferred"]))
        plans.append(([(), (), ()], 1, list(itertools.product(range(E), repeat=3)), ["nan", "pair"], ["explicit"]))
        plans.append(([(), (), ()], 2, [(0, 0, 0), (1, 2, 0)], ["nan"], ["explicit"]))
        plans.append(([(2,), ()], 1, list(itertools.product(range(E), repeat=2)), ["nan", "pair"], ["explicit", "inferred"]))
        plans.append(([(2,), (2,)], 1, [(0, 0), (1, 2)], ["nan"], ["explicit"]))
        plans.append(([(2, 2)], 1, [(0,), (1,), (2,)], FORMATS, ["explicit"]))
        plans.append(([(2, 2), ()], 1, [(0, 1)], ["nan"], ["explicit"]))
        plans.append(([(3,), ()], 1, [(0, 0)], ["nan"], ["explicit"]))
    for extras, cap, commons_list, fmts, modes in plans:
        D = len(extras)
        for commons in commons_list:
            keys = []
            for d in range(D):
                for sub in itertools.product(*[range(e) for e in extras[d]]):
                    for v in range(E):
                        if v != commons[d]:
                            keys.append((d, v) + sub)
            full = (tier == "thorough" and len(keys) <= 6) or len(keys) <= 4
            for p in _patterns(keys, full, seed):
                for fmt in fmts:
                    for mode in modes:
                        out.append(dict(extras=[list(e) for e in extras], E=E, cap=cap, commons=list(commons), fmt=fmt,
                                        shape=mode, present=[list(k) for k, x in zip(keys, p) if x]))
    if tier == "thorough":
        # D = 4, E = 2
        for commons in [(0, 0, 0, 0), (1, 0, 1, 0)]:
            keys = [(d, 1 - commons[d]) for d in range(4)]
            for p in itertools.product((True, False), repeat=4):
                out.append(dict(extras=[[], [], [], []], E=2, cap=1, commons=list(commons), fmt="nan", shape="explicit",
                                present=[list(k) for k, x in zip(keys, p) if x]))
    # skewed entry lengths derived from the integer constants in ccubes.py (a threshold on the ratio of two row-id arrays'
    # lengths selects another intersection strategy): one entry of exactly c rows against one of a single row
    for c in code_constants():
        for order in (0, 1):
            long_key, short_key = ([0, 1], [1, 1]) if order == 0 else ([1, 1], [0, 1])
            out.append(dict(extras=[[], []], E=2, cap=1, commons=[0, 0], fmt="nan", shape="explicit", present=[[0, 1], [1, 1]],
                            lens={json.dumps(long_key): c}, derived_from_constant=c))
    # D = 0
    out.append(dict(extras=[], E=1, cap=1, commons=[], fmt="nan", shape="explicit", present=[], zero_dim=True))
    return out


def explore(cfg, eng, ctx):
    C = cubes.catii("summary")
    extras = [tuple(e) for e in cfg["extras"]]
    D, E, cap, commons = len(extras), cfg["E"], cfg["cap"], cfg["commons"]
    present = {tuple(k) for k in cfg["present"]}
    rma = {"nan": float("nan"), "pair": (0, False), "zero": 0}[cfg["fmt"]]

    def path():
        N = z3.Int("N")
        scaffold = 1
        for e in extras:
            for x in e:
                scaffold *= x
        eng.assume(N >= 0, N * scaffold < 2 ** 30)
        dims, ents = [], []
        for d in range(D):
            pres = {}
            for sub in itertools.product(*[range(e) for e in extras[d]]):
                for v in range(E):
                    pres[(v,) + sub] = ((d, v) + sub) in present
            lens = {tuple(json.loads(k))[1:]: v for k, v in cfg.get("lens", {}).items() if json.loads(k)[0] == d} or None
            ix, es = cubes.sym_dim(eng, C, "d%d" % d, N, range(E), commons[d], extra=extras[d], cap=cap, present=pres, lens=lens)
            dims.append(ix)
            ents.append(es)
        meta = [(extras[d], commons[d], ents[d]) for d in range(D)]

        def builder(model):
            n, dd = cubes.dims_case(model, N, meta)
            return dict(kind="count", N=n, dims=dd, fmt=cfg["fmt"], shape=cfg["shape"], E=E)
        ctx.case_builder = builder
        if cfg["shape"] == "explicit":
            ishape = tuple([E] * D)
        elif cfg["shape"] == "padded":
            ishape = tuple([E + 1] * D)
        else:
            ishape = None
        try:
            cube = C.ccubes.ccube(dims, interacting_shape=ishape)
            if D == 0:
                res = cube.count(N=S.SInt(N), return_missing_as=rma)
            else:
                res = cube.count(return_missing_as=rma)
        except (Violation, Abort):
            raise
        except Exception as ex:
            eng.assert_(False, "count raised %s: %s" % (type(ex).__name__, str(ex)[:100]))
            return
        if cfg["fmt"] == "pair":
            vals, valid = res
        else:
            vals, valid = res, None
        from symex import snp as _snp
        vals = _snp.asarray(vals)
        if valid is not None:
            valid = _snp.asarray(valid)
        ish = tuple(int(x) for x in cube.interacting_shape)
        sc_shape = tuple(x for e in extras for x in e)
        # inferred shape must be exactly max(category present, common) + 1
        conds = []
        if ishape is None:
            for d in range(D):
                mx = max([commons[d]] + [k[1] for k in present if k[0] == d])
                conds.append(z3.BoolVal(ish[d] == mx + 1))
        if tuple(vals.o.shape) != sc_shape + ish:
            eng.assert_(False, "result shape %r, expected %r" % (tuple(vals.o.shape), sc_shape + ish))
            return
        cells = list(itertools.product(*[range(e) for e in ish]))
        for pos in itertools.product(*[range(x) for x in sc_shape]):
            subs, p = [], 0
            for e in extras:
                subs.append(pos[p:p + len(e)])
                p += len(e)
            want = cubes.count_oracle(N, ents, commons, subs, cells)
            for cell in cells:
                got = vals.o[pos + cell]
                t, nan, inf = rparts(got)
                cnt = want[cell]
                isnan = bt(nan)
                if cfg["fmt"] == "nan":
                    conds.append(z3.If(cnt == 0, isnan, z3.And(z3.Not(isnan), t == z3.ToReal(cnt))))
                elif cfg["fmt"] == "pair":
                    v = bt(valid.o[pos + cell])
                    conds.append(z3.And(z3.Not(isnan), v == (cnt != 0), t == z3.ToReal(cnt)))
                else:
                    conds.append(z3.And(z3.Not(isnan), t == z3.ToReal(cnt)))
        if cfg["fmt"] == "pair":
            conds.append(z3.BoolVal(valid.d.kind == "b"))
        eng.assert_(z3.And(*conds), "count cube differs from the brute-force contingency table")
        ctx.end_path()

    eng.explore(path)


def functions():
    return (loader.function_info("ccubes.py", ["ccube.__init__", "ccube._walk", "ccube.walk", "ccube.product", "ccube.calculate",
                                              "ccube._compute_common_cells_from_marginal_diffs", "ccube.count"]) +
            loader.function_info("ffuncs.py", ["ffunc_count.__init__", "ffunc_count.get_initial_regions", "ffunc_count.fill_func",
                                              "ffunc_count.reduce", "ffunc.adjust_zeros"]) +
            loader.function_info("iindexes.py", ["iindex.slices1d"]))
