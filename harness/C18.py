"""C18 - array-cube-only statistics equal the per-cell textbook statistic.

catii's own code (row selection per cell, validity handling, the standard deviation and the
weighted quantile) runs symbolically in full; numpy.quantile/nanquantile/cov/corrcoef/amax/amin
are NumPy's and are modelled by their textbook definitions over tagged rationals (the check
decides that catii hands the right rows, weights and NaN pattern to them).  Categories and
validity bits are forked (structure per path); fact values, weights and the probability stay
symbolic."""
import itertools
from fractions import Fraction

import numpy as rnp
import z3

from harness import aggs, C03
from symex import loader, snp
from symex import scalars as S
from symex.engine import Violation, Abort, Inconclusive, HarnessError
from symex.scalars import rparts, bt, SReal

ID = "C18"
LEVEL = "model_checking"
REWRITES = loader.REWRITES
STUBS = C03.STUBS + ["numpy.quantile / nanquantile / cov / corrcoef / amax / amin by their textbook definitions over tagged rationals",
                     "sqrt(x) = fresh y with y >= 0 and y*y = x", "argsort is stable (NumPy leaves the order of equal keys unspecified)"]
ASSUMPTIONS = C03.ASSUMPTIONS + ["NumPy's own numerics for quantile/cov/corrcoef are trusted",
                                 "correlation entries involving a zero-variance column or fewer than two rows are undefined and not compared"]
ENGINE_OPTS = {"quick": dict(wall_s=1500, query_timeout_ms=20000), "thorough": dict(wall_s=3400, query_timeout_ms=30000)}
RV = z3.RealVal


def bounds(tier):
    return {"N": 3 if tier == "quick" else "3..4", "D": "0..1 (2 in thorough)", "E": 2, "K": "1..2",
            "statistics": "stddev (un/weighted), quantile (un/weighted, symbolic probability in [0,1]), min, max, covariance (un/weighted), corrcoef",
            "policies": "both", "formats": "NaN and (values, validity)"}


def configs(tier, seed):
    out = []
    i = seed
    N = 3
    for stat in ("stddev", "quantile", "max", "min", "covariance", "corrcoef"):
        for ignore in (False, True):
            for wf in ("none", "array"):
                if stat in ("max", "min", "corrcoef") and wf != "none":
                    continue
                for fmt in ("nan", "pair"):
                    i += 1
                    K = 2 if stat in ("covariance", "corrcoef") else (1 + (i % 2) if stat == "stddev" else 1)
                    for dims in ([[]], []):
                        if not dims and tier == "quick" and (i % 2):
                            continue
                        fact = "pair" if (i % 3 == 0 and stat not in ("covariance", "corrcoef")) else "nan"
                        if stat in ("max", "min") and i % 2:
                            fact = "intpair"
                        n_ = N if dims else 2
                        extra = {}
                        if stat in ("stddev", "covariance") and wf != "none":
                            # weighted standard deviation: weights are structure (three patterns), values stay symbolic
                            extra["wvals"] = [["1/2", "3", "1"], ["3", "3", "1/2"], ["1", "0", "2"]][i % 3][:n_]
                        out.append(C03._base(n_, dims, 2, [0] * len(dims), "sum", weights=wf, ignore=ignore, fmt=fmt, K=K,
                                             fact=fact, stat=stat, force2d=(K == 1 and stat == "stddev" and i % 4 == 0), **extra))
    # integer weights (frequencies) in int64 arrays, plain and with a validity array
    for stat, K in (("covariance", 2), ("stddev", 1)):
        for wf in ("array", "pair"):
            i += 1
            if tier == "quick" and stat == "stddev" and wf == "array":
                continue
            out.append(C03._base(N, [[]], 2, [0], "sum", weights=wf, ignore=bool(i % 2), fmt="nan", K=K, fact="nan", stat=stat,
                                 wvals=["1", "3", "2"], wdtype="int64"))
    # quantile of a several-column fact (each column has its own missing rows)
    for ignore in (False, True):
        for wf in (("none",) if tier == "quick" else ("none", "array")):
            i += 1
            out.append(C03._base(N if wf == "none" else 2, [[]], 2, [0], "sum", weights=wf, ignore=ignore, fmt=["nan", "pair"][i % 2], K=2,
                                 fact="nan", stat="quantile"))
    # minimum / maximum of datetime64 facts (NaT-marked or with a validity array), both report formats
    for stat in ("max", "min"):
        for ignore in (False, True):
            for fmt in ("nan", "pair"):
                for fact in ("dt", "dtpair"):
                    i += 1
                    if tier == "quick" and (i % 2) and fmt == "pair":
                        continue
                    out.append(C03._base(N, [[]], 2, [0], "sum", weights="none", ignore=ignore, fmt=fmt, K=1, fact=fact, stat=stat))
    if tier == "thorough":
        for stat in ("stddev", "quantile"):
            for ignore in (False, True):
                # four rows: unweighted (the weighted four-row runs do not finish within the per-configuration budget)
                out.append(C03._base(4, [[]], 2, [0], "sum", weights="none", ignore=ignore, fmt="nan", K=1, fact="nan", stat=stat))
                out.append(C03._base(2, [[], []], 2, [0, 0], "sum", weights="none", ignore=ignore, fmt="pair", K=1, fact="nan", stat=stat))
    return out


def concrete_structure_inputs(data, cats, fvalid, wvalid):
    """Library inputs for the decided structure: categories and validity bits are concrete on this path,
    fact values / weights / values hidden under a False validity stay symbolic."""
    N, K = data.N, data.K
    fl = rnp.dtype(float)
    shape = (N, K) if (K > 1 or data.cfg.get("force2d")) else (N,)

    def arr(vals, dtype, shp):
        o = rnp.empty(len(vals), dtype=object)
        for i, v in enumerate(vals):
            o[i] = v
        return snp.ndarray(o.reshape(shp), dtype)
    form = data.form
    if form == "nan":
        fact = arr([SReal(data.vt[r][k], False, False) if fvalid[r][k] else float("nan") for r in range(N) for k in range(K)], fl, shape)
    elif form == "pair":
        fact = (arr([SReal(data.vt[r][k], False if fvalid[r][k] else data.hidden_nan[r][k], False) for r in range(N) for k in range(K)], fl, shape),
                arr([bool(fvalid[r][k]) for r in range(N) for k in range(K)], bool, shape))
    elif form == "dt":
        # datetime64[D] facts, NaT-marked: integer day counts, NaT carried by the NaN flag
        fact = arr([SReal(data.vt[r][k], False, False, True) if fvalid[r][k] else float("nan") for r in range(N) for k in range(K)],
                   rnp.dtype("M8[D]"), shape)
    elif form == "dtpair":
        fact = (arr([SReal(data.vt[r][k], False if fvalid[r][k] else data.hidden_nan[r][k], False, True) for r in range(N) for k in range(K)],
                    rnp.dtype("M8[D]"), shape),
                arr([bool(fvalid[r][k]) for r in range(N) for k in range(K)], bool, shape))
    else:
        fact = (arr([SReal(data.vt[r][k], False, False, True) for r in range(N) for k in range(K)], rnp.int64, shape),
                arr([bool(fvalid[r][k]) for r in range(N) for k in range(K)], bool, shape))
    wint = data.cfg.get("wdtype") == "int64"        # integer weights (frequencies): concrete whole numbers, int64 arrays
    if data.wform == "none":
        weights = None
    elif wint and data.wform == "array":
        weights = arr([int(Fraction(data.cfg["wvals"][r])) for r in range(N)], rnp.int64, (N,))
    elif wint and data.wform == "pair":
        weights = (arr([int(Fraction(data.cfg["wvals"][r])) for r in range(N)], rnp.int64, (N,)),
                   arr([bool(wvalid[r]) for r in range(N)], bool, (N,)))
    elif data.wform == "array":
        weights = arr([SReal(data.wt[r], False, False) if wvalid[r] else float("nan") for r in range(N)], fl, (N,))
    elif data.wform == "pair":
        weights = (arr([SReal(data.wt[r], False if wvalid[r] else data.whidden_nan[r], False) for r in range(N)], fl, (N,)),
                   arr([bool(wvalid[r]) for r in range(N)], bool, (N,)))
    else:
        weights = data.weights()
    dense = []
    for d, extra in enumerate(data.extras):
        dense.append(arr([cats[d][r] for r in range(N)], rnp.int64, (N,)))
    return fact, weights, dense


def teq(a, b):
    """a == b, decided structurally when both are the same term."""
    return z3.BoolVal(True) if z3.eq(z3.simplify(a), z3.simplify(b)) else a == b


def teq_b(a, b):
    return z3.BoolVal(True) if z3.eq(z3.simplify(a), z3.simplify(b)) else a == b


def _sorted(vals):
    """Insertion sort by solver-decided comparisons (the path already fixed the order)."""
    out = []
    for v in vals:
        pos = len(out)
        while pos > 0 and bool(S.e_lt(v, out[pos - 1])):
            pos -= 1
        out.insert(pos, v)
    return out


def explore(cfg, eng, ctx):
    C = aggs.catii("summary")
    stat, ignore, fmt = cfg["stat"], cfg["ignore"], cfg["fmt"]
    D = len(cfg["dims"])
    ishape = tuple([cfg["E"]] * D)

    def path():
        data = aggs.Data(eng, cfg)
        N, K = data.N, data.K
        prob = z3.Real("prob")
        eng.assume(prob >= 0, prob <= 1)
        eng.prefer.append(z3.Or(prob == 0, prob == RV("1/2"), prob == 1, prob == RV("1/4")))

        def builder(model):
            c = data.case(model)
            if c is None:
                return None
            from oracle.codec import enc
            c.update(kind="stats", stat=stat, ignore=ignore, fmt=fmt, ishape=list(ishape), prob=enc(S.ev(model, prob)))
            return c
        ctx.case_builder = builder
        # structure per path: categories, validity bits
        cats = {}
        for d, per in enumerate(data.cats):
            for sub, cs in per.items():
                cats[d] = [eng.concretize(c) for c in cs]
        fvalid = [[eng.branch(data.vvalid[r][k]) for k in range(K)] for r in range(N)]
        if data.wform == "array" and cfg.get("wdtype") == "int64":
            eng.assume(*data.wvalid)          # an integer array cannot mark a weight missing
        if data.wform in ("array", "pair"):
            wvalid = [eng.branch(b) for b in data.wvalid]
            # weights strictly positive here (zero weights are the known-finding region F19 for the weighted quantile)
        else:
            wvalid = [True] * N
        if "F19-wquantile-zero-weight-top" in ctx.excl and stat == "quantile" and data.wt is not None:
            for t in data.wt:
                eng.assume(t > 0)
        fact, weights, dense = concrete_structure_inputs(data, cats, fvalid, wvalid)
        rma = aggs.fmt_value(fmt, data)
        try:
            cube = C.xcubes.xcube(dense, interacting_shape=ishape)
            if stat == "stddev":
                f = C.xfuncs.xfunc_stddev(fact, weights, ignore, rma)
            elif stat == "quantile":
                f = C.xfuncs.xfunc_quantile(fact, S.mkreal(prob), weights, ignore, rma)
            elif stat in ("max", "min"):
                f = getattr(C.xfuncs, "xfunc_" + stat)(fact, ignore, rma)
            elif stat == "covariance":
                f = C.xfuncs.xfunc_covariance(fact, weights, ignore, rma)
            else:
                f = C.xfuncs.xfunc_corrcoef(fact, weights, ignore, rma)
            res = cube.calculate([f])[0]
        except (Violation, Abort, Inconclusive, HarnessError):
            raise
        except Exception as ex:
            eng.assert_(False, "%s raised %s: %s" % (stat, type(ex).__name__, str(ex)[:120]))
            return
        vals, valid = aggs.split_result(res, fmt)
        _rescaled = {}

        def rescaled(fac):
            """The same weighted quantile with every weight multiplied by `fac` (NaN format)."""
            if fac not in _rescaled:
                if isinstance(weights, tuple):
                    w2 = (weights[0] * fac, weights[1])
                else:
                    w2 = weights * fac
                f2 = C.xfuncs.xfunc_quantile(fact, S.mkreal(prob), w2, ignore, float("nan"))
                r2 = snp.asarray(cube.calculate([f2])[0])
                _rescaled[fac] = r2.o.reshape(want_shape) if want_shape else r2.o.reshape(())
            return _rescaled[fac]
        matrix = stat in ("covariance", "corrcoef")
        kshape = (K, K) if matrix else ((K,) if (K > 1 or cfg.get("force2d")) else ())
        want_shape = tuple(ishape) + kshape
        got_shape = tuple(vals.o.shape)
        if got_shape != want_shape and not (want_shape == () and got_shape == (1,)) and not (D == 0 and got_shape == (1,) + kshape):
            eng.assert_(False, "%s: result shape %r, expected %r" % (stat, got_shape, want_shape))
            return
        V = vals.o.reshape(want_shape) if want_shape else vals.o.reshape(())
        B = None if valid is None else (valid.o.reshape(want_shape) if want_shape else valid.o.reshape(()))
        w = [data.w(r) for r in range(N)]
        val = lambda r, k: data.val(r, k)
        _mcache = {}

        def expected_matrix(cell, rows):
            """NumPy's statistic (textbook model) over the rows catii must select: complete rows when
            ignoring missing values; all rows of the cell, invalid entries NaN, otherwise."""
            if cell in _mcache:
                return _mcache[cell]
            fl = rnp.dtype(float)
            if ignore:
                use = [r for r in rows if all(fvalid[r][k] for k in range(K)) and wvalid[r]]
            else:
                use = list(rows)
            o = rnp.empty((len(use), K), dtype=object)
            for a, r in enumerate(use):
                for k in range(K):
                    okc = fvalid[r][k] and wvalid[r]
                    o[a, k] = SReal(val(r, k), False, False) if okc else float("nan")
            seg = snp.ndarray(o, fl)
            nanm = snp.ndarray(snp._fill_obj((K, K), float("nan")), fl).o
            if stat == "covariance":
                if len(use) < 2:
                    res_ = nanm
                else:
                    aw = None
                    if data.wt is not None:
                        wo = rnp.empty(len(use), dtype=object)
                        for a, r in enumerate(use):
                            wo[a] = SReal(w[r], False, False) if wvalid[r] else float("nan")
                        aw = snp.ndarray(wo, fl)
                    from symex import snp_funcs
                    res_ = snp.asarray(snp_funcs.cov(seg.T, aweights=aw)).o
            else:
                if len(use) < 1:
                    res_ = nanm
                else:
                    from symex import snp_funcs
                    res_ = snp.asarray(snp_funcs.corrcoef(seg, rowvar=False)).o
            _mcache[cell] = res_
            return res_
        for cell in itertools.product(*[range(e) for e in ishape]):
            rows = [r for r in range(N) if all(cats[d][r] == cell[d] for d in range(D))]
            cols = list(itertools.product(range(K), repeat=2)) if matrix else [(k,) for k in range(K)]
            for col in cols:
                idx = cell + (col if kshape else ())
                got = V[idx]
                gt, gnan, ginf = rparts(got)
                isnan = bt(gnan)
                if matrix:
                    ki, kj = col
                    exp = expected_matrix(cell, rows)
                    e = exp[ki, kj]
                    if fmt == "pair":
                        # the (values, validity) format of the same matrix, built the way the property states it
                        enan_s = S.e_isnan(e)
                        e_val = S.e_ite(enan_s, S.SInt(data.sentinel), e)
                        et, en2, ei2 = rparts(e_val)
                        same = z3.And(teq_b(bt(B[idx]), z3.Not(bt(enan_s))), teq_b(isnan, bt(en2)), teq(gt, et))
                    else:
                        et, en, ei = rparts(e)
                        enan = bt(en)
                        same = z3.And(teq_b(isnan, enan), teq_b(bt(ginf), bt(ei)), z3.Or(enan, teq(gt, et)))
                    eng.assert_(same, "%s entry %r differs from the statistic over the rows of the cell (complete rows when ignoring, per column pair otherwise)" % (stat, idx))
                    continue
                k = col[0]
                ok = [r for r in rows if fvalid[r][k] and wvalid[r]]
                if stat in ("max", "min", "quantile") and stat != "quantile":
                    ok = [r for r in rows if fvalid[r][k]]
                if stat in ("max", "min"):
                    miss = (not ok) if ignore else (not rows or len(ok) != len(rows))
                    value = None
                    if not miss:
                        value = val(ok[0], k)
                        for r in ok[1:]:
                            value = z3.If((val(r, k) > value) if stat == "max" else (val(r, k) < value), val(r, k), value)
                    _assert_cell(eng, stat, idx, gt, isnan, ginf, B, fmt, data, miss, value)
                elif stat == "stddev":
                    n = len(ok)
                    miss = (n < 2) if ignore else (not rows or len(ok) != len(rows) or n < 2)
                    if miss:
                        _assert_cell(eng, stat, idx, gt, isnan, ginf, B, fmt, data, True, None)
                    else:
                        if data.wt is None:
                            mean = z3.Sum([val(r, k) for r in ok]) / n
                            var = z3.Sum([(val(r, k) - mean) * (val(r, k) - mean) for r in ok]) / (n - 1)
                            defined = z3.BoolVal(True)
                        else:
                            sw = z3.Sum([w[r] for r in ok])
                            mean = z3.Sum([w[r] * val(r, k) for r in ok]) / sw
                            var = (z3.Sum([w[r] * (val(r, k) - mean) * (val(r, k) - mean) for r in ok]) / sw) * RV(n) / RV(n - 1)
                            defined = sw > 0        # with all-zero weights the weighted variance is undefined
                        finite = z3.And(z3.Not(isnan), z3.Not(bt(ginf)))
                        c = z3.Implies(defined, z3.And(finite, gt >= 0, gt * gt == var))
                        if fmt == "pair":
                            c = z3.And(z3.Implies(defined, bt(B[idx])), c)
                        eng.assert_(c, "stddev cell %r differs from the textbook sample standard deviation" % (idx,))
                else:       # quantile
                    miss = (not ok) if ignore else (not rows or len(ok) != len(rows))
                    if miss:
                        _assert_cell(eng, stat, idx, gt, isnan, ginf, B, fmt, data, True, None)
                        continue
                    finite = z3.And(z3.Not(isnan), z3.Not(bt(ginf)))
                    if data.wt is None:
                        sv = _sorted([S.mkreal(val(r, k)) for r in ok])
                        n = len(sv)
                        pos = S.e_mul(S.mkreal(prob), n - 1)
                        value = None
                        for lo in range(n):
                            if lo == n - 1 or bool(S.e_lt(pos, lo + 1)):
                                if lo == n - 1:
                                    value = rparts(sv[lo])[0]
                                else:
                                    fr = S.e_sub(pos, lo)
                                    value = rparts(S.e_add(sv[lo], S.e_mul(fr, S.e_sub(sv[lo + 1], sv[lo]))))[0]
                                break
                        _assert_cell(eng, stat, idx, gt, isnan, ginf, B, fmt, data, False, value)
                    else:
                        # weighted: no closed form is promised -- missing rule and range
                        mn = val(ok[0], k)
                        mx = val(ok[0], k)
                        for r in ok[1:]:
                            mn = z3.If(val(r, k) < mn, val(r, k), mn)
                            mx = z3.If(val(r, k) > mx, val(r, k), mx)
                        sw = z3.Sum([w[r] for r in ok])
                        c = z3.Implies(sw > 0, z3.And(finite, gt >= mn, gt <= mx))
                        if fmt == "pair":
                            c = z3.And(c, z3.Implies(sw > 0, bt(B[idx])))
                        eng.assert_(c, "weighted quantile cell %r is missing or outside [min, max] of the cell's valid values" % (idx,))
                        # invariance under rescaling all weights (x2 and x1/4): same missing cells, same values
                        got_missing = isnan if fmt == "nan" else z3.Not(bt(B[idx]))
                        for fac in ((2,) if ctx.tier == "quick" else (2, Fraction(1, 4))):
                            got2 = rescaled(fac)[idx]
                            t2, n2, i2 = rparts(got2)
                            eng.assert_(z3.And(bt(n2) == got_missing, z3.Implies(z3.Not(got_missing), t2 == gt)),
                                        "weighted quantile cell %r changes when all weights are multiplied by %s" % (idx, fac))
        ctx.end_path()

    eng.explore(path)


def _assert_cell(eng, stat, idx, gt, isnan, ginf, B, fmt, data, missing, value):
    finite = z3.And(z3.Not(isnan), z3.Not(bt(ginf)))
    if fmt == "nan":
        c = isnan if missing else z3.And(finite, gt == value)
    else:
        v = bt(B[idx])
        c = z3.And(z3.Not(v), finite, gt == z3.ToReal(data.sentinel)) if missing else z3.And(v, finite, gt == value)
    eng.assert_(c, "%s cell %r differs from the per-cell textbook statistic / missing rule" % (stat, idx))


def _assert_matrix(eng, stat, idx, got, B, fmt, data, missing, value, val, ki, kj):
    gt, gnan, ginf = rparts(got)
    isnan = bt(gnan)
    finite = z3.And(z3.Not(isnan), z3.Not(bt(ginf)))
    if missing is True:
        c = isnan if fmt == "nan" else z3.And(z3.Not(bt(B[idx])), finite, gt == z3.ToReal(data.sentinel))
        eng.assert_(c, "%s entry %r should be missing" % (stat, idx))
        return
    num, norm, use, ww = value
    if stat == "covariance":
        defined = norm > 0
        c = z3.Implies(defined, z3.And(finite, gt * norm == num))
        if fmt == "pair":
            c = z3.And(c, z3.Implies(defined, bt(B[idx])))
        eng.assert_(c, "covariance entry %r differs from the textbook (weighted) covariance" % (idx,))
        return
    # correlation: r = cov_ij / sqrt(cov_ii cov_jj); undefined for zero variance (not compared)
    v1 = z3.Sum([ww[r] for r in use])
    mi = z3.Sum([ww[r] * val(r, ki) for r in use]) / v1
    mj = z3.Sum([ww[r] * val(r, kj) for r in use]) / v1
    vii = z3.Sum([ww[r] * (val(r, ki) - mi) * (val(r, ki) - mi) for r in use])
    vjj = z3.Sum([ww[r] * (val(r, kj) - mj) * (val(r, kj) - mj) for r in use])
    defined = z3.And(vii > 0, vjj > 0)
    c = z3.Implies(defined, z3.And(finite, gt * gt * vii * vjj == num * num, (gt >= 0) == (num >= 0), gt <= 1, gt >= -1))
    if fmt == "pair":
        c = z3.And(c, z3.Implies(defined, bt(B[idx])))
    eng.assert_(c, "correlation entry %r differs from the textbook correlation" % (idx,))


def functions():
    return (loader.function_info("xfuncs.py", ["xfunc.bins", "xfunc_stddev", "xfunc_quantile", "xfunc_op_base", "xfunc_max", "xfunc_min",
                                               "xfunc_corrcoef", "xfunc_covariance"]) +
            loader.function_info("xcubes.py", ["xcube.calculate", "xcube.strided_dims"]))
