"""Shared harness for C08 (exact set algebra) and C09 (memory safety) on the lowered
set_operations.pyx.  Lengths are structure (one configuration per length tuple, all of
them within the cap); element magnitudes are solver variables over all of uint32."""
import itertools
import os

import z3

from symex import kernelrt as K
from symex import scalars as S
from symex.engine import HarnessError, Violation
from symex.lower_pyx import compile_lowered
from symex.replay import src_dir
from symex.scalars import SInt, it

U32 = 2 ** 32
TWO = {"set_intersect_merge_np": "and", "set_union_merge_np": "or", "set_difference_merge_np": "andnot"}
WRAP = {"intersection": ("set_intersect_merge_np", "and"), "union": ("set_union_merge_np", "or"),
        "difference": ("set_difference_merge_np", "andnot")}

_cache = {}


def load_kernels():
    if "ns" in _cache:
        return _cache["ns"]
    path = os.path.join(src_dir(), "set_operations.pyx")
    src = open(path).read()
    code, lowered, types, directives = compile_lowered(src, path)
    _cache["code_text"] = lowered
    ns = {"__name__": "catii.set_operations", "__c_coerce": K.c_coerce, "__sx_len": K.sx_len,
          "__sx_min": K.sx_min, "__sx_max": K.sx_max, "__sx_range": K.sx_range}
    from symex.lower_pyx import cimported_namespace
    ns.update(cimported_namespace())
    exec(code, ns)
    ns["numpy"] = K.KNumpy
    K.State.directives = directives
    _cache["ns"] = ns
    _cache["types"] = types
    _cache["directives"] = directives
    return ns


def sym_sorted(eng, name, n):
    xs = [z3.Int("%s%d" % (name, i)) for i in range(n)]
    for i, x in enumerate(xs):
        eng.assume(x >= 0, x < U32)
        if i:
            eng.assume(xs[i - 1] < x)
    return xs


def member(xs, t):
    return z3.Or([x == t for x in xs]) if xs else z3.BoolVal(False)


def spec_fn(op, A, B):
    if op == "and":
        return lambda t: z3.And(member(A, t), member(B, t))
    if op == "or":
        return lambda t: z3.Or(member(A, t), member(B, t))
    return lambda t: z3.And(member(A, t), z3.Not(member(B, t)))


def set_spec(res, want, universe):
    """res (z3 Int terms) is strictly increasing and is exactly {t in universe : want(t)}."""
    conds = [res[i] < res[i + 1] for i in range(len(res) - 1)]
    conds += [want(r) for r in res]
    for t in universe:
        conds.append(z3.Implies(want(t), member(res, t)))
    return z3.And(*conds) if conds else z3.BoolVal(True)


def elems_of(r):
    if isinstance(r, K.View):
        return K.seq_elems(r)
    return list(r.e)


def code_constants():
    """Integer literals between 4 and 64 in the kernels' source (block sizes, unrolling factors, thresholds).
    Operand lengths around them are explored in addition to the small exhaustive lengths: the bound on the
    lengths is derived from the code, not chosen blindly."""
    import ast
    try:
        load_kernels()
        tree = ast.parse(_cache["code_text"])
    except HarnessError:
        return []
    cs = set()
    for node in ast.walk(tree):
        if isinstance(node, ast.Constant) and isinstance(node.value, int) and not isinstance(node.value, bool) and 4 <= node.value <= 64:
            cs.add(node.value)
    return sorted(cs)


def configs_for(tier, which):
    cap = 3 if tier == "quick" else 5
    kcap = 2 if tier == "quick" else 3
    kmax = 3 if tier == "quick" else 4
    out = []
    for f in TWO:
        for n in range(cap + 1):
            for m in range(cap + 1):
                out.append(dict(kind="two", func=f, n=n, m=m))
    for c in code_constants():
        for f in TWO:
            for n in ((c + 1, 2 * c + 1) if tier == "thorough" else (c + 1,)):
                for m in (1, 2):
                    out.append(dict(kind="two", func=f, n=n, m=m, derived_from_constant=c))
                    out.append(dict(kind="two", func=f, n=m, m=n, derived_from_constant=c))
            # the constant as a length *ratio* (a fast path for skewed operands): the shortest pair with two elements on the short side
            out.append(dict(kind="two", func=f, n=2 * c, m=2, derived_from_constant=c))
            out.append(dict(kind="two", func=f, n=2, m=2 * c, derived_from_constant=c))
    wcap = 2 if tier == "quick" else 3
    for w in WRAP:
        for ln in [None] + list(range(wcap + 1)):
            for lm in [None] + list(range(wcap + 1)):
                flags = [()]
                if w == "union":
                    flags = list(itertools.product((False, True), repeat=2))
                elif w == "difference":
                    flags = [(False,), (True,)]
                for fl in flags:
                    out.append(dict(kind="wrap", func=w, n=ln, m=lm, flags=list(fl)))
    for k in range(0, kmax + 1):
        for lens in itertools.product(range(kcap + 1), repeat=k):
            if k >= 3 and tier == "quick" and sum(lens) > 4:
                continue
            if k >= 4 and sum(lens) > 6:
                continue
            out.append(dict(kind="many", func="set_union_merge_many", lens=list(lens)))
    return out


def explore(cfg, eng, ctx, strict):
    ns = load_kernels()
    K.State.strict = strict

    def mk(xs):
        return K.KArr([SInt(x) for x in xs], "uint32")

    def path():
        K.State.oob_events = []
        kind = cfg["kind"]
        if kind in ("two", "wrap"):
            n, m = cfg["n"], cfg["m"]
            xs = sym_sorted(eng, "a", n or 0)
            ys = sym_sorted(eng, "b", m or 0)
            A = None if n is None else mk(xs)
            B = None if m is None else mk(ys)

            def builder(model, res=None):
                ev = lambda t: model.eval(t, model_completion=True).as_long()
                c = dict(kind="kernel", func=cfg["func"], strict=strict,
                         a=None if n is None else [ev(x) for x in xs],
                         b=None if m is None else [ev(y) for y in ys], flags=cfg.get("flags", []))
                return c
            ctx.case_builder = builder
            args = [A, B] + list(cfg.get("flags", []))
            try:
                R = ns[cfg["func"]](*args)
            except (Violation,):
                raise
            except Exception as ex:
                if strict:      # a Python-level exception is not a memory-safety matter
                    ctx.end_path()
                    return
                eng.assert_(False, "exception %s: %s" % (type(ex).__name__, str(ex)[:100]))
                return
            if strict:
                ctx.end_path()
                return
            op = TWO.get(cfg["func"]) or WRAP[cfg["func"]][1]
            if kind == "wrap":
                # documented None cases
                if cfg["func"] == "intersection":
                    none_in = n is None or m is None
                    eff_a, eff_b = xs, ys
                elif cfg["func"] == "union":
                    none_in = n is None and m is None
                    eff_a, eff_b = xs, ys
                else:
                    none_in = n is None
                    eff_a, eff_b = xs, ys
                if none_in:
                    eng.assert_(z3.BoolVal(R is None), "None expected for absent operand")
                    ctx.end_path()
                    return
                want = spec_fn(op, eff_a, eff_b)
                nonempty = z3.Or([want(t) for t in xs + ys]) if xs + ys else z3.BoolVal(False)
                if R is None:
                    eng.assert_(z3.Not(nonempty), "None returned for a non-empty result")
                    ctx.end_path()
                    return
                res = [it(e) for e in elems_of(R)]
                ok = z3.And(nonempty, set_spec(res, want, xs + ys), z3.BoolVal(R.dtype == "uint32"))
                # requested copies share no storage with their source
                fl = cfg.get("flags", [])
                if cfg["func"] == "union" and n is None and fl[1]:
                    ok = z3.And(ok, z3.BoolVal(R is not B and getattr(R, "base", None) is not B))
                if cfg["func"] == "union" and m is None and fl[0]:
                    ok = z3.And(ok, z3.BoolVal(R is not A and getattr(R, "base", None) is not A))
                if cfg["func"] == "difference" and m is None and fl[0]:
                    ok = z3.And(ok, z3.BoolVal(R is not A and getattr(R, "base", None) is not A))
                eng.assert_(ok, "wrapper result differs from the set-algebra specification")
                ctx.end_path()
                return
            want = spec_fn(op, xs, ys)
            res = [it(e) for e in elems_of(R)]
            eng.assert_(z3.And(set_spec(res, want, xs + ys), z3.BoolVal(R.dtype == "uint32")),
                        "kernel result differs from the set-algebra specification")
            ctx.end_path()
        else:
            lens = cfg["lens"]
            arrs = [sym_sorted(eng, "a%d_" % i, L) for i, L in enumerate(lens)]

            def builder(model):
                ev = lambda t: model.eval(t, model_completion=True).as_long()
                return dict(kind="kernel", func="set_union_merge_many", strict=strict,
                            arrays=[[ev(x) for x in xs] for xs in arrs])
            ctx.case_builder = builder
            try:
                R = ns["set_union_merge_many"]([mk(xs) for xs in arrs])
            except (Violation,):
                raise
            except Exception as ex:
                if strict:
                    ctx.end_path()
                    return
                eng.assert_(False, "exception %s: %s" % (type(ex).__name__, str(ex)[:100]))
                return
            if strict:
                ctx.end_path()
                return
            allx = [x for xs in arrs for x in xs]
            want = lambda t: member(allx, t)
            res = [it(e) for e in elems_of(R)]
            eng.assert_(z3.And(set_spec(res, want, allx), z3.BoolVal(R.dtype == "uint32")),
                        "multi-way union differs from the union of its operands")
            ctx.end_path()

    a0 = K.State.accesses
    eng.explore(path)
    ctx.notes["memoryview_accesses_checked"] = K.State.accesses - a0
    if strict:
        eng.vcs += K.State.accesses - a0      # each access on a feasible path is an in-range obligation


def functions():
    import hashlib
    path = os.path.join(src_dir(), "set_operations.pyx")
    src = open(path).read()
    out = []
    import re
    lines = src.splitlines()
    starts = [(i, re.match(r"def (\w+)\(", l).group(1)) for i, l in enumerate(lines) if re.match(r"def (\w+)\(", l)]
    for j, (i, name) in enumerate(starts):
        end = starts[j + 1][0] if j + 1 < len(starts) else len(lines)
        seg = "\n".join(lines[i:end])
        out.append(dict(file="src/catii/set_operations.pyx", name=name, lines="%d-%d" % (i + 1, end),
                        sha256=hashlib.sha256(seg.encode()).hexdigest()))
    return out
