"""Shared builders for the cube properties (C02, C13, C14, C16, C20): symbolic inverted-index
dimensions over symbolic-length row-id arrays, N symbolic, and brute-force oracles in SMT."""
import itertools

import numpy as rnp
import z3

from symex import loader, snp, snp_funcs
from symex import scalars as S
from symex.engine import Violation, Abort, HarnessError
from symex.scalars import SInt, SReal, it, bt, rparts

_cache = {}


def catii(kernels="summary"):
    if kernels not in _cache:
        _cache[kernels] = loader.load_catii(kernels=kernels)
    return _cache[kernels]


class SymEntry:
    def __init__(self, key, xs, n):
        self.key = key      # (value, col, layer...)
        self.xs = xs        # z3 Int element terms (capacity)
        self.n = n          # z3 Int length term (or python int)

    def live(self, j):
        return z3.IntVal(j) < self.n if not isinstance(self.n, int) else z3.BoolVal(j < self.n)

    def member(self, t):
        return z3.Or([z3.And(self.live(j), x == t) for j, x in enumerate(self.xs)] + [z3.BoolVal(False)])

    def array(self):
        o = rnp.empty(len(self.xs), dtype=object)
        for j, x in enumerate(self.xs):
            o[j] = SInt(x)
        return snp.ndarray(o, rnp.uint32, SInt(self.n) if not isinstance(self.n, int) else None)


def sym_dim(eng, C, tag, N, cats, common, extra=(), cap=2, present=None, min_len=1, lens=None):
    """A well-formed symbolic index of shape (N,)+extra over categories `cats` (common excluded).
    `present`: dict key -> bool (structure); absent keys have no entry.  Returns (iindex, entries)."""
    entries = []
    ent = {}
    for sub in itertools.product(*[range(e) for e in extra]):
        col = []
        for v in cats:
            if v == common:
                continue
            key = (v,) + sub
            if present is not None and not present.get(key, True):
                continue
            nm = "%s_%s" % (tag, "_".join(str(k) for k in key))
            n = z3.Int("n_" + nm)
            kcap = cap if lens is None or key not in lens else lens[key]
            if lens is not None and key in lens:
                eng.assume(n == kcap)           # an entry of exactly this many rows (skewed-length configurations)
            else:
                eng.assume(n >= min_len, n <= cap)
            xs = [z3.Int("x_%s_%d" % (nm, j)) for j in range(kcap)]
            for j, x in enumerate(xs):
                eng.assume(z3.Implies(j < n, z3.And(x >= 0, x < N)))
                if j:
                    eng.assume(z3.Implies(j < n, xs[j - 1] < x))
            for other in col:
                for j, x in enumerate(xs):
                    for j2, y in enumerate(other.xs):
                        eng.assume(z3.Implies(z3.And(j < n, other.live(j2)), x != y))
            e = SymEntry(key, xs, n)
            col.append(e)
            entries.append(e)
            ent[key] = e.array()
    ix = C.iindexes.iindex.__new__(C.iindexes.iindex)
    dict.__init__(ix, ent)
    ix.common = common
    ix.shape = (SInt(N) if not isinstance(N, int) else N,) + tuple(extra)
    ix.rowid_dtype = C.iindexes.iindex.ROWID_DTYPE
    return ix, entries


def cat_of(entries, common, sub, t):
    """Category (z3 Int) of row t in the slice `sub` of a dimension."""
    r = z3.IntVal(common)
    for e in entries:
        if e.key[1:] == tuple(sub):
            r = z3.If(e.member(t), z3.IntVal(e.key[0]), r)
    return r


def candidates(all_entries):
    cand, live = [], []
    for e in all_entries:
        for j, x in enumerate(e.xs):
            cand.append(x)
            live.append(e.live(j))
    return cand, live


def first_flags(cand, live):
    """first[i]: candidate i is live and no earlier live candidate holds the same row id."""
    out = []
    for i, t in enumerate(cand):
        out.append(z3.And([live[i]] + [z3.Or(z3.Not(live[q]), t != u) for q, u in enumerate(cand[:i])]))
    return out


def count_oracle(N, dims_entries, commons, subs, cells):
    """dict cell -> z3 Int: number of rows whose category vector (on the given slices) is the cell.
    dims_entries[d] = entries of dimension d; subs[d] = extra-axis position of dimension d."""
    rel = [e for d, es in enumerate(dims_entries) for e in es if e.key[1:] == tuple(subs[d])]
    cand, live = candidates(rel)
    first = first_flags(cand, live)
    D = len(dims_entries)
    out = {}
    distinct = z3.Sum([z3.If(f, 1, 0) for f in first] + [z3.IntVal(0)])
    cats = [[cat_of(dims_entries[d], commons[d], subs[d], t) for t in cand] for d in range(D)]
    for cell in cells:
        cnt = z3.IntVal(0)
        for i, t in enumerate(cand):
            cnt = cnt + z3.If(z3.And(first[i], *[cats[d][i] == cell[d] for d in range(D)]), 1, 0)
        if all(cell[d] == commons[d] for d in range(D)):
            cnt = cnt + N - distinct
        out[cell] = cnt
    return out


def eval_entries(model, entries):
    out = {}
    for e in entries:
        n = model.eval(e.n, model_completion=True).as_long() if not isinstance(e.n, int) else e.n
        out[e.key] = [model.eval(x, model_completion=True).as_long() for x in e.xs[:n]]
    return out


def dims_case(model, N, dims_meta):
    """JSON description of the concrete dimensions under a model: list of
    {shape, common, entries: [[key, rowids], ...]}"""
    n = model.eval(N, model_completion=True).as_long() if not isinstance(N, int) else N
    out = []
    for extra, common, entries in dims_meta:
        ev = eval_entries(model, entries)
        out.append(dict(shape=[n] + list(extra), common=common,
                        entries=[[list(k), v] for k, v in sorted(ev.items())]))
    return n, out
