#!/bin/bash
# Offline setup: nothing to build; verify that the tooling the checks need is present.
set -e
cd "$(dirname "$0")"
python3-vt -c "import z3, numpy, sys; print('engine python', sys.version.split()[0], 'z3', z3.get_version_string(), 'numpy', numpy.__version__)"
/venv/bin/python -c "import numpy, Cython; print('replay python numpy', numpy.__version__, 'cython', Cython.__version__)"
