#!/usr/bin/env python3-vt
"""Debug: run one configuration of a harness in-process.  usage: runcfg.py PID '<json cfg>' | PID --index I [--tier T]"""
import json, os, sys, time, traceback
sys.path.insert(0, os.path.dirname(os.path.dirname(os.path.abspath(__file__))))
sys.setrecursionlimit(20000)
import importlib
from symex.engine import Engine, CUR, Violation, Inconclusive
from symex import driver
pid = sys.argv[1]
H = importlib.import_module("harness." + pid)
tier = "quick"
if "--tier" in sys.argv: tier = sys.argv[sys.argv.index("--tier") + 1]
if sys.argv[2] == "--index":
    cfg = H.configs(tier, 0)[int(sys.argv[3])]
elif sys.argv[2] == "--time-all":
    import multiprocessing
    cfgs = H.configs(tier, int(os.environ.get("VERIF_SEED", "0")))
    with multiprocessing.get_context("fork").Pool(16) as pool:
        rs = pool.map(driver._worker, [(pid, c, tier, 0, []) for c in cfgs], chunksize=1)
    for r in sorted(rs, key=lambda r: -r["wall_s"])[:12]:
        print(r["wall_s"], r["stats"].get("paths"), r["inconclusive"], (r["error"] or "")[-300:], json.dumps(r["cfg"]))
    sys.exit(0)
else:
    cfg = json.loads(sys.argv[2])
print("cfg:", cfg)
eng = Engine(**getattr(H, "ENGINE_OPTS", {}).get(tier, {})); CUR.E = eng
ctx = driver.Ctx(eng, cfg, tier, 0, [])
t = time.time()
try:
    H.explore(cfg, eng, ctx)
    print("HOLDS", eng.stats())
except Violation as v:
    print("VIOLATION", v.kind); print(json.dumps(ctx.build_case(v.model, v), default=str)[:1500])
    if os.environ.get("TB"): traceback.print_exc()
except Inconclusive as ex:
    print("INCONCLUSIVE", ex, eng.stats())
print("wall %.1f" % (time.time() - t), "stage2", eng.stage2[:10])
