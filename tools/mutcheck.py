#!/usr/bin/env python3
"""Run checks against a mutated scratch copy of catii (build-time acceptance testing only).
usage: mutcheck.py FILE 'OLD' 'NEW' PID [PID...]   (OLD/NEW python-escaped strings; all occurrences unless count given via env MUT_COUNT)"""
import os, shutil, subprocess, sys, tempfile
fn, old, new, pids = sys.argv[1], sys.argv[2], sys.argv[3], sys.argv[4:]
old = old.encode().decode("unicode_escape"); new = new.encode().decode("unicode_escape")
d = tempfile.mkdtemp(prefix="catii-mut-")
try:
    dst = os.path.join(d, "catii")
    shutil.copytree("/repo/src/catii", dst, ignore=shutil.ignore_patterns("*.so", "*.c", "__pycache__"))
    p = os.path.join(dst, fn); s = open(p).read()
    if old not in s:
        print("MUTATION NOT APPLICABLE: pattern not found"); sys.exit(3)
    cnt = int(os.environ.get("MUT_COUNT", "0"))
    s = s.replace(old, new, cnt) if cnt else s.replace(old, new)
    open(p, "w").write(s)
    env = dict(os.environ, CATII_SRC=dst)
    for pid in pids:
        r = subprocess.run(["./check", pid] + (["--tier", os.environ["MUT_TIER"]] if os.environ.get("MUT_TIER") else []),
                           cwd="/verif", env=env, stdout=subprocess.PIPE, stderr=subprocess.STDOUT, text=True)
        lines = r.stdout.strip().splitlines()
        v = [l for l in lines if l.startswith("VIOLATION")]
        print("%s exit=%d violations=%d | %s" % (pid, r.returncode, len(v), lines[-1] if lines else ""))
        for l in lines:
            if l.startswith(("HARNESS-ERROR", "ENGINE-MISMATCH", "  kind")):
                print("   ", l[:300])
                break
finally:
    shutil.rmtree(d, ignore_errors=True)
    # evidence files were rewritten by the mutated run: restore them from git
    subprocess.run(["git", "checkout", "--", "evidence"], cwd="/verif", stdout=subprocess.DEVNULL, stderr=subprocess.DEVNULL)
