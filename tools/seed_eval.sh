#!/bin/bash
# Evaluate a seeded change produced by a sub-agent.
# usage: seed_eval.sh NAME "CHECK IDS..."   (worktree /tmp/seed/wt-NAME with the change applied, deliverables in /tmp/seed/out-NAME)
n=$1; checks=$2
wt=/tmp/seed/wt-$n; out=/tmp/seed/out-$n
dst=/verif/seeded/$n
mkdir -p $dst
cp $out/patch.diff $out/demo.py $out/meta.json $dst/ 2>/dev/null
# the worktree is reset and the delivered patch re-applied (git stash is shared between worktrees: never trust the tree state)
if [ -s $out/patch.diff ]; then
  git -C $wt checkout -- . && git -C $wt checkout -q --detach $(git -C /repo rev-parse HEAD) && git -C $wt apply $out/patch.diff || echo "PATCH DOES NOT APPLY" >> $dst/eval.txt
  if grep -q "set_operations.pyx" $out/patch.diff; then ( cd $wt && CYTHONIZE_SETUP_PY=1 /venv/bin/python setup.py -q build_ext --inplace >/dev/null 2>&1 ); fi
fi
git -C $wt diff > $dst/patch.diff
res=$dst/eval.txt
: > $res
( cd /tmp && PYTHONPATH=/repo/src timeout 300 /venv/bin/python $dst/demo.py >/dev/null 2>&1; echo "demo_on_unchanged_repo_exit=$?" ) >> $res
( cd /tmp && PYTHONPATH=$wt/src timeout 300 /venv/bin/python $dst/demo.py >/dev/null 2>&1; echo "demo_with_change_exit=$?" ) >> $res
( cd $wt && PYTHONPATH=$wt/src timeout 1500 /venv/bin/python -m pytest -q -p no:cacheprovider tests 2>&1 | tail -1 | sed 's/^/tests_with_change: /' ) >> $res
for c in $checks; do
  ( cd /verif && CATII_SRC=$wt/src/catii timeout 3000 ./check $c > /tmp/seed/check-$n-$c.log 2>&1; rc=$?
    v=$(grep -c '^VIOLATION' /tmp/seed/check-$n-$c.log)
    k=$(grep -m1 '  kind:' /tmp/seed/check-$n-$c.log | cut -c1-200)
    echo "check $c exit=$rc violations=$v $k" ) >> $res
done
( cd /verif && git checkout -- evidence >/dev/null 2>&1 )
cat $res
