#!/usr/bin/env python3-vt
"""Run the repository's own tests with catii loaded over the NumPy shim in concrete mode
(DESIGN.md section 2.8 item 3).  The tests' own `numpy` is the real one; results are exported
through ndarray.__array__.  Prints one line per failing test and a summary."""
import importlib, os, sys, types, traceback, itertools
sys.path.insert(0, os.path.dirname(os.path.dirname(os.path.abspath(__file__))))
sys.setrecursionlimit(20000)
import numpy as rnp
from symex import loader, snp, snp_funcs
from symex.engine import Engine, CUR, HarnessError

CUR.E = Engine()
from symex import scalars as _S
_S.CONCRETE_SQRT[0] = True
C = loader.load_catii(kernels="summary")

# fake pytest
pt = types.ModuleType("pytest")
class _Raises:
    def __init__(s, exc, match=None): s.exc = exc
    def __enter__(s): return s
    def __exit__(s, t, v, tb):
        if t is None: raise AssertionError("DID NOT RAISE %r" % (s.exc,))
        return issubclass(t, s.exc)
pt.raises = _Raises
class _Mark:
    def parametrize(s, names, values):
        def deco(f):
            f._params = getattr(f, "_params", []) + [(names, list(values))]
            return f
        return deco
    def __getattr__(s, n):
        return lambda *a, **k: (a[0] if a and callable(a[0]) else (lambda f: f))
pt.mark = _Mark()
def _skip(*a, **k): raise _Skip()
class _Skip(Exception): pass
pt.skip = _skip
pt.fixture = lambda *a, **k: (a[0] if a and callable(a[0]) else (lambda f: f))
pt.approx = lambda x, **k: x
sys.modules["pytest"] = pt

pkg = types.ModuleType("catii"); pkg.__path__ = []
for n in ("iindexes", "ffuncs", "xfuncs", "ccubes", "xcubes", "set_operations"):
    setattr(pkg, n, getattr(C, n)); sys.modules["catii." + n] = getattr(C, n)
pkg.ccube = C.ccubes.ccube; pkg.iindex = C.iindexes.iindex; pkg.xcube = C.xcubes.xcube
sys.modules["catii"] = pkg
sys.path.insert(0, "/repo")

mods = sys.argv[1:] or ["tests.test_set_operations", "tests.test_iindexes", "tests.test_ccubes", "tests.test_xcubes",
        "tests.ffuncs.test_ffunc_count", "tests.ffuncs.test_ffunc_mean", "tests.ffuncs.test_ffunc_sum", "tests.ffuncs.test_ffunc_valid_count",
        "tests.xfuncs.test_xfunc_count", "tests.xfuncs.test_xfunc_mean", "tests.xfuncs.test_xfunc_sum", "tests.xfuncs.test_xfunc_valid_count",
        "tests.xfuncs.test_xfunc_stddev", "tests.xfuncs.test_xfunc_minmax", "tests.xfuncs.test_xfunc_quantile",
        "tests.xfuncs.test_xfunc_covariance", "tests.xfuncs.test_xfunc_corrcoef"]
npass = nfail = nerr = 0
fails = []
for mn in mods:
    try:
        m = importlib.import_module(mn)
    except BaseException as ex:
        print("IMPORT-ERROR", mn, type(ex).__name__, str(ex)[:300]); traceback.print_exc(limit=6); nerr += 1; continue
    for cn, cls in sorted(vars(m).items()):
        if not (cn.startswith("Test") and isinstance(cls, type)): continue
        for tn in sorted(dir(cls)):
            if not tn.startswith("test") or "huge" in tn: continue
            f = getattr(cls, tn)
            params = getattr(f, "_params", [])
            combos = [()]
            names = []
            for pn, vals in params:
                pn = [x.strip() for x in pn.split(",")]
                names = pn + names
                combos = [tuple(v if len(pn) > 1 else (v,)) + c for v in vals for c in combos]
            for i, combo in enumerate(combos):
                inst = cls()
                try:
                    if hasattr(inst, "setup_method"): inst.setup_method(f)
                    getattr(inst, tn)(**dict(zip(names, combo)))
                    npass += 1
                except _Skip:
                    pass
                except BaseException as ex:
                    nfail += 1
                    tb = traceback.extract_tb(ex.__traceback__)
                    loc = [t for t in tb if "/verif/symex" in t.filename]
                    where = ("%s:%d" % (os.path.basename(loc[-1].filename), loc[-1].lineno)) if loc else ("%s:%d" % (os.path.basename(tb[-1].filename), tb[-1].lineno))
                    fails.append((mn, cn, tn, i, type(ex).__name__, str(ex)[:160].replace("\n", " "), where))
import json as _json
_b = _json.load(open("/root/.vp/BASELINE.json")) if os.path.exists("/root/.vp/BASELINE.json") else {"always_fail": []}
_always = set(x.split("[")[0] for x in _b.get("always_fail", []))
# artefacts of exporting exact rationals / converting real arrays (not shim defects):
_ARTEFACTS = {"tests.test_iindexes.TestSetIf::test_set_if_copy": "identity of a converted real array",
              "tests.test_iindexes.TestStr::test_str": "repr of shim arrays",
              "tests.ffuncs.test_ffunc_mean.TestFfuncMeanWorkflow": "exact float equality of sums vs exact rationals",
              "tests.ffuncs.test_ffunc_valid_count.TestFfuncValidCountWorkflow": "exact float equality of sums vs exact rationals",
              "tests.ffuncs.test_ffunc_count.TestFfuncCountWorkflow": "exact float equality of sums vs exact rationals"}
def _excused(f):
    tid = "%s.%s::%s" % (f[0], f[1], f[2])
    return tid in _always or tid in _ARTEFACTS or ("%s.%s" % (f[0], f[1])) in _ARTEFACTS
unexp = [f for f in fails if not _excused(f)]
print("conformance: %d failures also fail on the real build (baseline always_fail) or are listed export artefacts; %d unexpected" % (len(fails) - len(unexp), len(unexp)))
fails_all, fails = fails, unexp
import collections
grp = collections.Counter((f[4], f[5][:90], f[6]) for f in fails)
for (k, n) in grp.most_common(40):
    print("CAUSE x%d %s: %s @ %s" % ((n,) + k))
for f in fails[: int(os.environ.get("SHOW", "0"))]:
    print("FAIL %s::%s::%s[%d] %s: %s @ %s" % f)
print("conformance: pass=%d fail=%d import_errors=%d" % (npass, nfail, nerr))
sys.exit(1 if (unexp or nerr) else 0)
