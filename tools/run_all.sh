#!/bin/bash
# Run every registered check of a tier sequentially, logging wall time and exit status.
# usage: tools/run_all.sh quick|thorough [ID...]
tier=${1:-quick}; shift
ids="$@"
[ -z "$ids" ] && ids="C19 C08 C09 C10 C11 C12 C14 C02 C13 C20 C16 C05 C17 C03 C04 C06 C07 C15 C01 C18"
cd "$(dirname "$0")/.."
for id in $ids; do
  s=$(date +%s)
  timeout 7200 ./check $id --tier $tier > /tmp/run_all_$id.log 2>&1
  rc=$?
  e=$(date +%s)
  echo "$id $tier rc=$rc wall=$((e-s))s $(tail -1 /tmp/run_all_$id.log | cut -c1-200)"
done
