#!/usr/bin/env python3-vt
"""Print the "measured numbers" table of DESIGN.md section 3 from the evidence files of the last run."""
import json, os, sys
HERE = os.path.dirname(os.path.dirname(os.path.abspath(__file__)))
print("| check | tier | configurations | paths | solver-decided branches | VCs discharged | paths replayed on the real build | wall |")
print("|---|---|---|---|---|---|---|---|")
for i in range(1, 21):
    pid = "C%02d" % i
    try:
        e = json.load(open(os.path.join(HERE, "evidence", pid + ".json")))
    except OSError:
        continue
    c = e["coverage"]
    f = lambda n: "{:,}".format(n).replace(",", " ")
    print("| %s | %s | %s | %s | %s | %s | %s | %d s |" % (pid, e["tier"], f(c["configs"]["total"]), f(c["paths"]["completed"]), f(c["transitions"]),
                                                        f(c["vcs"]["discharged"]), f(c["traces_validated_against_impl"]), round(e["wall_s"])))
