#!/usr/bin/env python3-vt
"""Debug: run every configuration of a harness in its own process with a timeout; list the slowest.
usage: time_cfgs.py PID TIMEOUT_S [tier]"""
import sys, json, subprocess, time, os
sys.path.insert(0, os.path.dirname(os.path.dirname(os.path.abspath(__file__))))
import importlib
import concurrent.futures as cf
pid = sys.argv[1]
H = importlib.import_module("harness." + pid)
T = int(sys.argv[2])
tier = sys.argv[3] if len(sys.argv) > 3 else "quick"
cfgs = H.configs(tier, 0)


def run(i):
    t = time.time()
    try:
        r = subprocess.run(["python3-vt", "tools/runcfg.py", pid, json.dumps(cfgs[i]), "--tier", tier], cwd="/verif",
                           capture_output=True, text=True, timeout=T)
        out = [l for l in r.stdout.splitlines() if l.startswith(("HOLDS", "VIOLATION", "INCONCLUSIVE"))]
        return i, round(time.time() - t, 1), (out[0][:150] if out else r.stderr[-300:])
    except subprocess.TimeoutExpired:
        return i, T, "TIMEOUT"


with cf.ThreadPoolExecutor(16) as ex:
    res = list(ex.map(run, range(len(cfgs))))
for r in sorted(res, key=lambda r: -r[1])[:int(os.environ.get("TOP", "30"))]:
    c = cfgs[r[0]]
    print(r[1], r[2][:110], json.dumps({k: v for k, v in c.items() if k in ('stat', 'ignore', 'weights', 'fmt', 'K', 'fact', 'dims', 'N', 'op', 'agg', 'side', 'shape', 'mapping')}))
print("n", len(res), "timeouts", sum(1 for r in res if r[2] == "TIMEOUT"), "viol", sum(1 for r in res if r[2].startswith("VIOL")),
      "total_s", round(sum(r[1] for r in res)))
