#!/usr/bin/env python3-vt
"""Regenerate MANIFEST.json from the table below (validated against the schema)."""
import json, os, sys
HERE = os.path.dirname(os.path.dirname(os.path.abspath(__file__)))
T = "symbolic execution of the real source over a NumPy shim + z3, replay on a scratch build"
CHECKS = {
 "C01": ("Patterns of cells are structure; the magnitudes of the distinct values, of the common value and of mapping targets are solver variables over all of int64 (symbolic dictionary keys). Every path of from_array/to_array within the pattern bounds; each VC decided by z3.",
         "Patterns (shape, which cell holds which class) are enumerated within the stated bounds; NumPy semantics come from the shim (dtype/shape by shadow execution on real NumPy).", "symbolic execution of from_array/to_array with symbolic dict keys + z3 (LIA)", "5 C01"),
 "C02": ("Bounded symbolic execution of ccube/ffunc_count/iindex.slices1d from the working tree over a NumPy shim; N and all row ids are solver variables (N < 2^30), key presence / D / E / shapes are structure; every cell is compared with a brute-force count written in SMT.",
         "Intersection kernel replaced by its set-algebra summary (discharged by C08); NumPy shim trusted (validated by running the repository's tests through it and per-path replays).", T + "; kernel summaries (assume-guarantee with C08)", "5 C02"),
 "C03": ("Symbolic execution of both cube types (ccube+ffuncs, xcube+xfuncs) from the working tree on the same symbolic row data: categories, fact values, validity bits, hidden values and weights are solver variables; every output cell of both cubes is compared with a direct per-cell computation written in SMT (missing mask exactly, values as exact rationals).",
         "float64 = exact rationals + NaN/inf tags (rounding outside the claim); N<=3 (quick)/4, D<=2, E<=3, K<=2; weights from a symbolic palette {0,1/2,1,3} in the quick tier; NumPy shim validated by the repository's own tests and per-path replays.", T + "; tagged exact-rational float model", "5 C03"),
 "C04": ("Same harness as C03 run with all three report formats on the same symbolic data in one path (symbolic integer sentinel): each format's missing mask must equal the rule (no row / all-or-any missing by policy / zero valid weight for a mean) and the formats must agree cell by cell.",
         "As C03; excluded as the property says: valid_count with a plain replacement value under propagation.", T + "; tagged exact-rational float model", "5 C04"),
 "C13": ("C03's harness on dimensions with 2 or 3 axes (unequal extra extents, two multi-axis dimensions at once): result shape = extras ++ categories (++ columns) and the block at every extra-axis position equals the direct computation over that position's 1-D slices, for both cube types and all four shared aggregates.",
         "As C03; extra extents up to (2,3) quick / (3,2),(1,4),(2,2)+(2,) thorough.", T, "5 C13"),
 "C05": ("Relational check on the real shift_common + ccube + ffuncs: for every dimension and every new common value in 0..E (E never occurs), the aggregate of the original cube, of the cube with that dimension re-expressed, and of the re-normalised copy are equal cell by cell for all symbolic data (missing flags exactly, values as rationals); the original is also compared with the direct oracle.",
         "As C03 (exact-rational model, N<=3, D<=2); cube shape explicit with one spare category.", T, "5 C05"),
 "C16": ("Bounded symbolic conflict analysis of the real pooled task code: per-task cell-level read/write footprints on every buffer that exists before pool.map, and attribute writes on the shared cube/aggregate objects, recorded while the tasks run under the shim for all data on each path; conflict-free tasks commute, so every interleaving gives the serial result. The pooled result is also compared with the direct oracle. A recorded conflict is replayed on the real build by a deterministic interleaving scheduler (real threads gated by sys.settrace at line and opcode level) and reported only if some interleaving changes the output.",
         "The commutation meta-argument is trusted; C-level thread interleavings inside a NumPy call and the real pool's worker management are outside the claim; scaffolds (3,), (2,2) (quick) plus (2,3) (thorough), N=2.", "symbolic footprint (conflict) analysis over the shim + z3 for the data-dependent parts; deterministic scheduler replay", "5 C16"),
 "C17": ("Symbolic execution of cube construction, aggregate construction and calculate for both cube types with every caller-owned buffer snapshotted: after each step every cell must hold the same term (hidden values under a False validity are arbitrary, so a missing copy shows up), aggregates computed together in any order equal each computed alone, and re-using aggregate objects (same cube, another cube) gives equal arrays.",
         "As C03; N=3, D<=2, K<=2; the non-mutating index methods are covered by C06's operand-unchanged assertions.", T, "5 C17"),
 "C20": ("The interrupt callback raises at a symbolic invocation index (serial) or at a symbolic subset of invocations (pooled, pool stub): on every path calculate must propagate the injected exception iff some invocation raises, the callback must be consulted exactly i+1 times (serial) / once per sub-cube (pooled), and a second evaluation on the same cube and aggregate objects must equal the direct oracle for all data.",
         "Pool = stub that calls every task and re-raises the first exception (the documented ThreadPool.map contract); K<=3 sub-cubes quick, <=6 thorough.", T + "; fault index as a solver variable", "5 C20"),
 "C06": ("One inductive step per index operation from an arbitrary well-formed pre-state: the pre-state is the index of a symbolic dense array (all cell values solver variables over a palette), the real operation is executed over symbolic-length row-id arrays, and the dense abstraction of the result (written by the harness over the element terms) must equal the NumPy model of the operation cell by cell; operands unchanged; requested copies share no storage.",
         "Histories of any length follow from the step + C07 (pre-state = any well-formed index); shapes 1-D N<=3, 2-D 2x2, 3-D 2x2x2 (quick), N<=4 / 3x2 (thorough); kernels = summaries (C08).", T + "; inductive step from an arbitrary well-formed state", "5 C06"),
 "C07": ("Same one-step exploration as C06; after every operation the representation invariant (uint32, non-empty, strictly increasing row ids below the row count, plain-int coordinates within the shape, nothing under the common value, no row under two values of the same column) is discharged by z3 over the element terms of the result.",
         "As C06; from_array and INDX load as constructors are covered by C01 and C10.", T + "; inductive invariant", "5 C07"),
 "C15": ("After each library-chosen normalisation (shift_common(), append, filtered, collapsed) the count of the common value in the dense abstraction is >= the count of every other value for all symbolic contents; == between two independent symbolic indexes holds iff shape, common and dense content coincide, != is its negation, == is reflexive and symmetric, and comparison with a non-index is False.",
         "As C06; transitivity follows from the iff (equality of triples).", T, "5 C15"),
 "C08": ("Bounded symbolic execution of the lowered set_operations.pyx: every path for every length tuple within the cap, element magnitudes are solver variables over all of uint32; each path's result is checked against a set-algebra specification written in SMT; z3 decides every VC.",
         "Line-level .pyx->Python lowering and the kernel NumPy stub are trusted (cross-validated per path against a scratch build); operands longer than the cap (quick 3 / thorough 5) are outside the claim.", "symbolic execution of the lowered Cython source + z3 (QF_LIA) per path", "5 C08"),
 "C09": ("Same exploration as C08 with every memoryview access in a boundscheck(False) function carrying the obligation 0 <= i < shape[0]; a feasible path with an out-of-range access is a violation, replayed on a scratch build compiled with boundscheck(True).",
         "Cython's code generation for in-range memoryview indexing is trusted; caps as C08.", "symbolic execution of the lowered Cython source with bounds obligations + z3", "5 C09"),
 "C10": ("Symbolic execution of the real IndxIO.save/load over byte terms: coordinate, common and row-id magnitudes are BitVec variables over their whole ranges; number of entries, arity and array lengths are structure. All index word sizes are reached as paths.",
         "I/O primitives (file, struct, mmap, ndarray(buffer=), tofile) are stubs with their documented contracts; entries <= 2 (quick) / 3 (thorough), arity <= 4.", "symbolic execution over BitVec(80) byte terms + z3 (QF_BV)", "5 C10"),
 "C11": ("Four obligations on the real save/load: bytes written == an independent encoder of the class docstring; an independent decoder recovers the data; files laid out per the docstring with every admissible pair of word sizes load to their data; recorded payload size == real payload length for symbolic array lengths up to 2^32.",
         "The specification encoder/decoder live in /verif and are written from the docstring alone; stubs as C10.", "symbolic execution over BitVec(80) byte terms vs an independent SMT encoder/decoder + z3", "5 C11"),
 "C12": ("The cut point k is one solver variable per file (0 <= k < len(F)); on every path of save followed by load of the k-byte prefix, load must raise.",
         "Decisive stub: mmap raises ValueError when the requested length exceeds the file size (documented CPython/Linux behaviour); structures as C10.", "symbolic execution with a symbolic crash point + z3 (QF_BV)", "5 C12"),
 "C14": ("Symbolic execution of ccube.walk/_walk/interactions over symbolic-length row-id arrays, N symbolic; delivered (coordinates, row ids) are compared with rows(c) written over the element terms, and every undelivered combination must be matched by no row.",
         "Intersection kernel = summary discharged by C08; D<=3 (quick) / 4 (thorough), E=3, caps 1-2.", T + "; kernel summaries", "5 C14"),
 "C18": ("Symbolic execution of xfunc_stddev / xfunc_quantile (incl. weighted_quantile) / xfunc_max / xfunc_min / xfunc_covariance / xfunc_corrcoef through xcube.calculate: categories and validity bits are forked (structure), fact values, weights and the probability in [0,1] are solver variables. Standard deviation, quantile and min/max are compared with per-cell textbook formulas written in SMT (sqrt(x) = y with y>=0, y^2=x); covariance / correlation with NumPy's statistic (textbook model) applied to the rows the property says must be selected, decided structurally term by term; missing cells by the C04 rule plus 'fewer than two valid rows' for the standard deviation.",
         "numpy.quantile/cov/corrcoef/amax/amin numerics are NumPy's (modelled by definition); weighted standard deviation / covariance use three concrete weight patterns per configuration; weighted quantile: missing rule and [min,max] range only; N<=3, D<=1 (quick).", T + "; tagged exact-rational float model, sqrt as a defined fresh variable", "5 C18"),
 "C19": ("All paths of the real fit_dtype source over unbounded integer variables; each VC (contains the range, right signedness, no narrower dtype fits) is linear integer arithmetic over the whole documented domain.",
         "numpy.iinfo limits are taken from NumPy; the property's domain is the assumption set.", "symbolic execution of the Python source + z3 (LIA), no bound beyond the documented domain", "5 C19"),
}
def chk(pid):
    text, note, tech, ref = CHECKS[pid]
    cat = "other" if pid == "C16" else "model_checking"
    return {"property_id": pid, "quick_cmd": "./check %s --tier quick" % pid, "thorough_cmd": "./check %s --tier thorough" % pid,
            "evidence_file": "/verif/evidence/%s.json" % pid, "replay_cmd_template": "./check %s --replay {path}" % pid,
            "engine": "symex", "level_claimed": {"category": cat, "text": text, "design_ref": ref}, "level_note": note, "technique": tech}
ids = ["C%02d" % i for i in range(1, 21)]
claimed = [i for i in ids if i in CHECKS and os.path.exists(os.path.join(HERE, "harness", i + ".py"))]
NA = json.load(open(os.path.join(HERE, "tools", "not_applicable.json"))) if os.path.exists(os.path.join(HERE, "tools", "not_applicable.json")) else {}
m = {"version": 1, "setup_cmd": "./setup.sh",
     "hooks": {"guard": "CATII_VERIF", "enable": "none needed: all substitutions happen in the engine's private module namespace; no hook commits in /repo",
               "baseline_off_cmd": "cd /repo && /venv/bin/python -m pytest -ra -q -p no:cacheprovider --timeout=900 --continue-on-collection-errors",
               "source_commits": [], "add_only": True},
     "engines": [{"name": "symex", "path": "/verif/symex", "serves_properties": claimed,
                  "kind_free_text": "decision-trail symbolic execution of catii's own source (Python modules over a NumPy shim, .pyx lowered) with z3 deciding every VC; counterexamples replayed on a scratch build"}],
     "checks": [chk(i) for i in claimed],
     "notes": "fix: commits made in /repo are listed in known_findings.json (status fixed). tools/conformance.py runs the repository's own tests through the shim.",
     "not_applicable": [{"property_id": i, "reason": NA.get(i, "check not built yet (work in progress; DESIGN.md section 8 build order)")} for i in ids if i not in claimed]}
import jsonschema
jsonschema.validate(m, json.load(open("/root/.vp/MANIFEST.schema.json")))
json.dump(m, open(os.path.join(HERE, "MANIFEST.json"), "w"), indent=1)
print("claimed:", claimed)
