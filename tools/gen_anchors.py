#!/usr/bin/env python3-vt
"""Map each property's anchors (file:line ranges at the pinned commit) to the functions they lie in.

The line numbers in properties.jsonl refer to the pinned tree; the working tree has moved (fix: commits),
so the ranges are resolved once against the pinned source (`git show <base>:<file>`) into qualified
function names, which are stable.  Output: /verif/anchors.json
  {pid: [{"file": ..., "function": qualname, "pinned_lines": "a-b", "mechanism": ...}, ...]}
usage: tools/gen_anchors.py [BASE_COMMIT]   (default: the root commit of /repo)
"""
import ast
import json
import os
import re
import subprocess
import sys

HERE = os.path.dirname(os.path.dirname(os.path.abspath(__file__)))


def git(*a):
    return subprocess.run(["git", "-C", "/repo"] + list(a), capture_output=True, text=True, check=True).stdout


def functions_py(src):
    out = []

    def visit(node, prefix):
        for n in getattr(node, "body", []):
            if isinstance(n, (ast.FunctionDef, ast.AsyncFunctionDef)):
                out.append((prefix + n.name, n.lineno, n.end_lineno))
                visit(n, prefix + n.name + ".<locals>.")
            elif isinstance(n, ast.ClassDef):
                visit(n, prefix + n.name + ".")
    visit(ast.parse(src), "")
    return out


def functions_pyx(src):
    lines = src.splitlines()
    starts = []
    for i, l in enumerate(lines, 1):
        m = re.match(r"(?:cp?def\s+(?:inline\s+)?(?:[\w\[\]:]+\s+)?|def\s+)(\w+)\(", l)
        if m and not l.startswith((" ", "\t")):
            starts.append((m.group(1), i))
    out = []
    for k, (name, ln) in enumerate(starts):
        end = (starts[k + 1][1] - 1) if k + 1 < len(starts) else len(lines)
        while end > ln and (not lines[end - 1].strip() or lines[end - 1].lstrip().startswith(("@", "#"))):
            end -= 1
        out.append((name, ln, end))
    return out


def main():
    base = sys.argv[1] if len(sys.argv) > 1 else git("rev-list", "--max-parents=0", "HEAD").split()[0]
    cache = {}
    res = {}
    for line in open(os.path.join(HERE, "properties.jsonl")):
        p = json.loads(line)
        items = []
        for mech in p["anchors"].get("mechanism", []):
            cur = None
            for part in re.split(r"[;,]\s*", mech.get("where", "")):
                part = part.strip()
                m = re.match(r"(src/[\w/.]+):(\d+)(?:-(\d+))?$", part)
                if m:
                    cur = m.group(1)
                    a, b = int(m.group(2)), int(m.group(3) or m.group(2))
                else:
                    m = re.match(r"(\d+)(?:-(\d+))?$", part)
                    if not m or cur is None:
                        continue
                    a, b = int(m.group(1)), int(m.group(2) or m.group(1))
                if cur not in cache:
                    src = git("show", "%s:%s" % (base, cur))
                    cache[cur] = functions_pyx(src) if cur.endswith(".pyx") else functions_py(src)
                for name, lo, hi in cache[cur]:
                    if lo <= b and a <= hi:
                        # the innermost functions only: skip an enclosing function whose nested one also matches
                        it = dict(file=cur, function=name, pinned_lines="%d-%d" % (a, b), mechanism=mech["name"][:120])
                        if not any(x["file"] == cur and x["function"] == name for x in items):
                            items.append(it)
        res[p["id"]] = items
    json.dump(dict(base=base, anchors=res), open(os.path.join(HERE, "anchors.json"), "w"), indent=1)
    for k, v in res.items():
        print(k, len(v), sorted(set(x["function"] for x in v))[:12])


if __name__ == "__main__":
    main()
