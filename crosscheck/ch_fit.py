"""CrossHair harness (second engine) for C19: the real fit_dtype source of CATII_SRC/iindexes.py."""
import ast
import os

import numpy

_src = os.path.join(os.environ.get("CATII_SRC", "/repo/src/catii"), "iindexes.py")
_tree = ast.parse(open(_src).read())
_fn = [n for n in _tree.body if isinstance(n, ast.FunctionDef) and n.name == "fit_dtype"][0]
_ns = {"numpy": numpy}
exec(compile(ast.Module([_fn], []), _src, "exec"), _ns)
fit_dtype = _ns["fit_dtype"]
_INTS = [numpy.int8, numpy.int16, numpy.int32, numpy.int64]
_UINTS = [numpy.uint8, numpy.uint16, numpy.uint32, numpy.uint64]
_LIM = {numpy.dtype(t): (int(numpy.iinfo(t).min), int(numpy.iinfo(t).max)) for t in _INTS + _UINTS}


def _narrowest(lo: int, hi: int):
    fam = _INTS if lo < 0 else _UINTS
    for t in fam:
        a, b = _LIM[numpy.dtype(t)]
        if a <= lo and hi <= b:
            return numpy.dtype(t)
    return None


def check_fit(maxval: int, minval: int):
    """
    pre: -2**63 <= minval <= 0
    pre: minval <= maxval
    pre: (maxval < 2**64) if (minval >= 0 and maxval >= 0) else (maxval < 2**63)
    post: _ == _narrowest(min(minval, maxval), max(maxval, 0))
    """
    return fit_dtype(maxval, minval)


def check_fit_one_argument(maxval: int):
    """
    pre: -2**63 <= maxval < 2**64
    post: _ == _narrowest(min(maxval, 0), max(maxval, 0))
    """
    return fit_dtype(maxval)
