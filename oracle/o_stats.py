"""Concrete oracle for C18: per-cell textbook statistics with NumPy over the rows of each cell."""
import itertools
import math
import warnings

import numpy

from catii import xcube, xfuncs
from oracle import o_aggs
from oracle.codec import dec


def close(a, b):
    return abs(a - b) <= 1e-9 * max(1.0, abs(a), abs(b))


def run(c):
    warnings.simplefilter("ignore")
    N, extras, dense = o_aggs.build(c)
    fact, vals, vvalid = o_aggs.fact_of(c)
    weights, w, wv = o_aggs.weights_of(c)
    rma = o_aggs.rma_of(c)
    ish = tuple(c["ishape"])
    stat, ignore, fmt = c["stat"], c["ignore"], c["fmt"]
    K = c["K"]
    prob = float(dec(c["prob"]))
    try:
        cube = xcube(dense, interacting_shape=ish)
        if stat == "stddev":
            f = xfuncs.xfunc_stddev(fact, weights, ignore, rma)
        elif stat == "quantile":
            f = xfuncs.xfunc_quantile(fact, prob, weights, ignore, rma)
        elif stat in ("max", "min"):
            f = getattr(xfuncs, "xfunc_" + stat)(fact, ignore, rma)
        elif stat == "covariance":
            f = xfuncs.xfunc_covariance(fact, weights, ignore, rma)
        else:
            f = xfuncs.xfunc_corrcoef(fact, weights, ignore, rma)
        res = cube.calculate([f])[0]
    except Exception as ex:
        return {"violates": True, "exception": "%s: %s" % (type(ex).__name__, ex)}
    if fmt == "pair":
        V, B = numpy.asarray(res[0]), numpy.asarray(res[1])
    else:
        V, B = numpy.asarray(res), None
    if V.dtype.kind == "M":
        # datetime results: day counts, NaT as NaN
        nat = numpy.isnat(V)
        V = numpy.where(nat, numpy.nan, V.astype("M8[D]").astype(numpy.int64).astype(float))
    matrix = stat in ("covariance", "corrcoef")
    kshape = (K, K) if matrix else ((K,) if (K > 1 or c.get("force2d")) else ())
    shape = ish + kshape
    if V.shape != shape and not (V.size == int(numpy.prod(shape)) and (not ish)):
        return {"violates": True, "why": "shape %r != %r" % (V.shape, shape)}
    V = V.reshape(shape)
    if B is not None:
        B = B.reshape(shape)
    x = [[float(v) for v in row] for row in vals]
    wf = [float(t) for t in w]
    weighted = c["wform"] != "none"
    for cell in itertools.product(*[range(e) for e in ish]):
        rows = [r for r in range(N) if all(int(dense[d][r]) == cell[d] for d in range(len(dense)))]
        cols = list(itertools.product(range(K), repeat=2)) if matrix else [(k,) for k in range(K)]
        for col in cols:
            idx = cell + (col if kshape else ())
            g = float(V[idx])
            gv = None if B is None else bool(B[idx])
            missing, value, compare = False, None, True
            if matrix:
                ki, kj = col
                if ignore:
                    use = [r for r in rows if all(vvalid[r]) and wv[r]]
                    bad = False
                else:
                    use = rows
                    bad = any(not (vvalid[r][ki] and vvalid[r][kj] and wv[r]) for r in rows)
                if bad or len(use) < 2:
                    missing = True
                else:
                    ww = numpy.array([wf[r] if (weighted and stat == "covariance") else 1.0 for r in use])
                    xi = numpy.array([x[r][ki] for r in use])
                    xj = numpy.array([x[r][kj] for r in use])
                    v1 = ww.sum()
                    if v1 <= 0:
                        compare = False
                    else:
                        mi, mj = (ww * xi).sum() / v1, (ww * xj).sum() / v1
                        norm = v1 - (ww * ww).sum() / v1
                        num = (ww * (xi - mi) * (xj - mj)).sum()
                        if norm <= 1e-12:
                            compare = False
                        elif stat == "covariance":
                            value = num / norm
                        else:
                            vii = (ww * (xi - mi) ** 2).sum()
                            vjj = (ww * (xj - mj) ** 2).sum()
                            if vii <= 1e-12 or vjj <= 1e-12:
                                compare = False
                            else:
                                value = num / math.sqrt(vii * vjj)
            else:
                k = col[0]
                usew = stat in ("stddev", "quantile")
                ok = [r for r in rows if vvalid[r][k] and (wv[r] if usew else True)]
                if stat in ("max", "min"):
                    missing = (not ok) if ignore else (not rows or len(ok) != len(rows))
                    if not missing:
                        value = (max if stat == "max" else min)(x[r][k] for r in ok)
                elif stat == "stddev":
                    missing = len(ok) < 2 if ignore else (not rows or len(ok) != len(rows) or len(ok) < 2)
                    if not missing:
                        xv = numpy.array([x[r][k] for r in ok])
                        if not weighted:
                            value = float(numpy.std(xv, ddof=1))
                        else:
                            ww = numpy.array([wf[r] for r in ok])
                            if ww.sum() <= 0:
                                compare = False
                            else:
                                m = (ww * xv).sum() / ww.sum()
                                n = len(ok)
                                value = math.sqrt((ww * (xv - m) ** 2).sum() / ww.sum() * n / (n - 1))
                else:
                    missing = (not ok) if ignore else (not rows or len(ok) != len(rows))
                    if not missing:
                        xv = numpy.array([x[r][k] for r in ok])
                        if not weighted:
                            value = float(numpy.quantile(xv, prob))
                        else:
                            ww = numpy.array([wf[r] for r in ok])
                            if ww.sum() <= 0:
                                compare = False
                            else:
                                # only the missing rule and the range are promised
                                if math.isnan(g) or not (xv.min() - 1e-9 <= g <= xv.max() + 1e-9) or (gv is False):
                                    return {"violates": True, "cell": list(idx), "got": g, "valid": gv, "want": "within [%r, %r]" % (xv.min(), xv.max())}
                                compare = False
            if not compare:
                continue
            if missing:
                ok_ = math.isnan(g) if fmt == "nan" else (gv is False and g == c["sentinel"])
            else:
                ok_ = (not math.isnan(g)) and close(g, value) and (gv is not False)
            if not ok_:
                return {"violates": True, "cell": list(idx), "got": g, "valid": gv, "want": "missing" if missing else value}
    return {"violates": False}
