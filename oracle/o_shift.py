"""Concrete oracle for C05: the same aggregate before / after shift_common(v) / after re-normalising."""
import numpy
from catii import ccube, ffuncs
from oracle import o_aggs


def same(a, b):
    if isinstance(a, tuple):
        return all(same(x, y) for x, y in zip(a, b))
    a, b = numpy.asarray(a), numpy.asarray(b)
    return a.shape == b.shape and numpy.allclose(a, b, rtol=1e-9, atol=1e-9, equal_nan=True)


def run(c):
    N, extras, dense = o_aggs.build(c)
    fact, vals, vvalid = o_aggs.fact_of(c)
    weights, w, wv = o_aggs.weights_of(c)
    rma = o_aggs.rma_of(c)
    ish = tuple(c["ishape"])
    try:
        dims = [o_aggs.index_of(a, c["commons"][d]) for d, a in enumerate(dense)]
        base = o_aggs.aggregate(ccube(dims, interacting_shape=ish), ffuncs, "ffunc_", c["agg"], fact, weights, c["ignore"], rma)
        sh = dims[c["shift_dim"]].copy()
        sh.shift_common(c["new_common"])
        d2 = list(dims)
        d2[c["shift_dim"]] = sh
        r2 = o_aggs.aggregate(ccube(d2, interacting_shape=ish), ffuncs, "ffunc_", c["agg"], fact, weights, c["ignore"], rma)
        rn = sh.copy()
        rn.shift_common()
        d3 = list(dims)
        d3[c["shift_dim"]] = rn
        r3 = o_aggs.aggregate(ccube(d3, interacting_shape=ish), ffuncs, "ffunc_", c["agg"], fact, weights, c["ignore"], rma)
    except Exception as ex:
        return {"violates": True, "exception": "%s: %s" % (type(ex).__name__, ex)}
    want, shape = o_aggs.direct(c, dense, c["agg"], c["ignore"], ish, vals, vvalid, w, wv)
    why = o_aggs.check(base, want, shape, c["fmt"], c["sentinel"], 1.0)
    ok = same(base, r2) and same(base, r3) and sh.common == c["new_common"] and not why
    return {"violates": not ok, "base": repr(base)[:200], "shifted": repr(r2)[:200], "renorm": repr(r3)[:200], "why": why}
