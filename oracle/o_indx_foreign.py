import os
import numpy
from catii.indxio import IndxIO
from oracle.indx_common import same, spec_encode, tmpfile


def run(c):
    p = tmpfile()
    try:
        with open(p, "wb") as f:
            f.write(spec_encode(c["keys"], c["common"], c["rows"], c["arity"], c["w_index"], c["w_rowid"]))
        try:
            with open(p, "rb") as f:
                loaded = IndxIO.load(f)
                ok, why = same(loaded, c)
                if ok and loaded[2].itemsize != c["w_rowid"]:
                    ok, why = False, "rowid dtype %s" % loaded[2]
        except Exception as ex:
            return {"violates": True, "exception": "%s: %s" % (type(ex).__name__, ex)}
        return {"violates": not ok, "why": why}
    finally:
        os.unlink(p)
