"""Concrete oracle for C20 on the real build (real ThreadPool in pooled mode)."""
import threading
import numpy
from catii import ccube, xcube, ffuncs, xfuncs
from oracle import o_aggs


class Interrupt(Exception):
    pass


class InterruptBase(BaseException):
    """An interrupt that does not derive from Exception (as KeyboardInterrupt)."""


HANG_S = 8


def run(c):
    """Pooled mode: which sub-cube gets which invocation number depends on thread timing, so a counterexample subset is
    only one representative: every subset of raising invocations must satisfy the property, and the replay also tries the
    single-invocation subsets and the full one (a few repetitions each) before it calls a candidate unreproduced."""
    if not c.get("pooled") or c.get("exc_base") or c.get("_single"):
        return run_one(c)
    K = c["K_sub"]
    subsets = [list(c["subset"])]
    for j in range(K):
        sj = [i == j for i in range(len(c["subset"]))]
        if sj not in subsets:
            subsets.append(sj)
    full = [i < K for i in range(len(c["subset"]))]
    if full not in subsets:
        subsets.append(full)
    first = None
    for sub in subsets:
        for rep in range(3):
            r = run_one(dict(c, subset=sub, _single=True))
            if first is None:
                first = r
            if r.get("violates"):
                r["subset_used"] = sub
                return r
    return first


def run_one(c):
    N, extras, dense = o_aggs.build(c)
    fact, vals, vvalid = o_aggs.fact_of(c)
    weights, w, wv = o_aggs.weights_of(c)
    ish = tuple(c["ishape"])
    agg, ignore, K, pooled = c["agg"], c["ignore"], c["K_sub"], c["pooled"]
    lock = threading.Lock()
    state = {"calls": 0}

    def cb():
        with lock:
            j = state["calls"]
            state["calls"] += 1
        hit = (c["subset"][j] if j < K else False) if pooled else (j == c["fault"])
        if hit:
            raise (InterruptBase if c.get("exc_base") else Interrupt)(j)
    if c["side"] == "ccube":
        cube = ccube([o_aggs.index_of(a, c["commons"][d]) for d, a in enumerate(dense)], interacting_shape=ish)
        mod, prefix = ffuncs, "ffunc_"
    else:
        cube = xcube(dense, interacting_shape=ish)
        mod, prefix = xfuncs, "xfunc_"
    cls = getattr(mod, prefix + agg)
    f = cls(weights, None, ignore, float("nan")) if agg == "count" else cls(fact, weights, ignore, float("nan"))
    cube.parallel = pooled
    cube.check_interrupt = cb
    raised = False
    box = {}

    def first():
        try:
            cube.calculate([f])
        except (Interrupt, InterruptBase):
            box["raised"] = True
        except BaseException as ex:
            box["other"] = "%s: %s" % (type(ex).__name__, ex)
    if c.get("exc_base"):
        # the call may never return (a pool worker that died): run it aside and give it HANG_S seconds
        t = threading.Thread(target=first, daemon=True)
        t.start()
        t.join(HANG_S)
        if t.is_alive():
            return {"violates": True, "hang": "calculate did not return within %d s after the callback raised" % HANG_S}
    else:
        first()
    if "other" in box:
        return {"violates": True, "exception": box["other"]}
    raised = bool(box.get("raised"))
    should = any(c["subset"][:K]) if pooled else c["fault"] < K
    want_calls = K if pooled else (c["fault"] + 1 if c["fault"] < K else K)
    if raised != should or state["calls"] != want_calls:
        return {"violates": True, "raised": raised, "should": should, "calls": state["calls"], "want_calls": want_calls}
    cube.check_interrupt = None
    try:
        again = cube.calculate([f])[0]
    except Exception as ex:
        return {"violates": True, "exception2": "%s: %s" % (type(ex).__name__, ex)}
    want, shape = o_aggs.direct(c, dense, agg, ignore, ish, vals, vvalid, w, wv)
    why = o_aggs.check(again, want, shape, "nan", 0, 1.0)
    return {"violates": bool(why), "why": why}
