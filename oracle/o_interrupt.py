"""Concrete oracle for C20 on the real build (real ThreadPool in pooled mode)."""
import threading
import numpy
from catii import ccube, xcube, ffuncs, xfuncs
from oracle import o_aggs


class Interrupt(Exception):
    pass


def run(c):
    N, extras, dense = o_aggs.build(c)
    fact, vals, vvalid = o_aggs.fact_of(c)
    weights, w, wv = o_aggs.weights_of(c)
    ish = tuple(c["ishape"])
    agg, ignore, K, pooled = c["agg"], c["ignore"], c["K_sub"], c["pooled"]
    lock = threading.Lock()
    state = {"calls": 0}

    def cb():
        with lock:
            j = state["calls"]
            state["calls"] += 1
        hit = (c["subset"][j] if j < K else False) if pooled else (j == c["fault"])
        if hit:
            raise Interrupt(j)
    if c["side"] == "ccube":
        cube = ccube([o_aggs.index_of(a, c["commons"][d]) for d, a in enumerate(dense)], interacting_shape=ish)
        mod, prefix = ffuncs, "ffunc_"
    else:
        cube = xcube(dense, interacting_shape=ish)
        mod, prefix = xfuncs, "xfunc_"
    cls = getattr(mod, prefix + agg)
    f = cls(weights, None, ignore, float("nan")) if agg == "count" else cls(fact, weights, ignore, float("nan"))
    cube.parallel = pooled
    cube.check_interrupt = cb
    raised = False
    try:
        cube.calculate([f])
    except Interrupt:
        raised = True
    except Exception as ex:
        return {"violates": True, "exception": "%s: %s" % (type(ex).__name__, ex)}
    should = any(c["subset"][:K]) if pooled else c["fault"] < K
    want_calls = K if pooled else (c["fault"] + 1 if c["fault"] < K else K)
    if raised != should or state["calls"] != want_calls:
        return {"violates": True, "raised": raised, "should": should, "calls": state["calls"], "want_calls": want_calls}
    cube.check_interrupt = None
    try:
        again = cube.calculate([f])[0]
    except Exception as ex:
        return {"violates": True, "exception2": "%s: %s" % (type(ex).__name__, ex)}
    want, shape = o_aggs.direct(c, dense, agg, ignore, ish, vals, vvalid, w, wv)
    why = o_aggs.check(again, want, shape, "nan", 0, 1.0)
    return {"violates": bool(why), "why": why}
