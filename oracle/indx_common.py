"""Concrete INDX helpers for replays: independent encoder (struct) and runners."""
import os
import struct
import tempfile

import numpy


def narrowest(m):
    return 1 if m < 2 ** 8 else 2 if m < 2 ** 16 else 4 if m < 2 ** 32 else 8


FM = {1: "<B", 2: "<H", 4: "<L", 8: "<Q"}


def spec_encode(keys, common, rows, arity, w_index=None, w_rowid=4):
    if w_index is None:
        w_index = narrowest(max([common] + [c for k in keys for c in k]))
    p = b""
    p += struct.pack("<B", arity if keys else 0)
    p += struct.pack("<L", len(keys))
    p += struct.pack("<B", w_index)
    p += struct.pack(FM[w_index], common)
    for k in keys:
        for c in k:
            p += struct.pack(FM[w_index], c)
    p += struct.pack("<B", w_rowid)
    for r in rows:
        p += struct.pack(FM[w_rowid], len(r))
    for r in rows:
        for x in r:
            p += struct.pack(FM[w_rowid], x)
    return b"INDX0001" + struct.pack("<Q", len(p)) + p


def entries_of(c):
    return {tuple(k): numpy.array(r, dtype=numpy.uint32) for k, r in zip(c["keys"], c["rows"])}


def same(loaded, c):
    e2, c2, dt = loaded
    if c2 != c["common"] or type(c2) is not int:
        return False, "common %r" % (c2,)
    want = {tuple(k): list(r) for k, r in zip(c["keys"], c["rows"])}
    if set(e2.keys()) != set(want.keys()):
        return False, "keys %r" % (sorted(e2.keys()),)
    for k, v in e2.items():
        if not all(type(x) is int for x in k):
            return False, "key types"
        if v.dtype != numpy.uint32 or v.tolist() != want[k]:
            return False, "rows for %r: %r %s" % (k, v.tolist(), v.dtype)
    return True, ""


def tmpfile():
    fd, p = tempfile.mkstemp(prefix="indx-", dir=os.getcwd())
    os.close(fd)
    return p
