"""Helpers for concrete replays on the real build (sparse: N may be huge)."""
import numpy
from catii import iindex


def build_index(d):
    ent = {tuple(k): numpy.array(v, dtype=numpy.uint32) for k, v in d["entries"]}
    return iindex(ent, d["common"], tuple(d["shape"]))


def mentioned_rows(dims):
    rows = set()
    for d in dims:
        for k, v in d["entries"]:
            rows.update(v)
    return sorted(rows)


def cat_lookup(d):
    """{sub: {row: category}} for the uncommon cells of one dimension."""
    out = {}
    for k, v in d["entries"]:
        m = out.setdefault(tuple(k[1:]), {})
        for r in v:
            m[r] = k[0]
    return out


def dense(d):
    a = numpy.full(tuple(d["shape"]), d["common"], dtype=numpy.int64)
    for k, v in d["entries"]:
        for r in v:
            a[(r,) + tuple(k[1:])] = k[0]
    return a
