"""Concrete oracle for C01 on the real build."""
import numpy
from catii import iindex


def run(c):
    d = c["d"]
    shape = tuple(c["shape"])
    a = numpy.array([d[i] for i in c["pattern"]], dtype=numpy.int64).reshape(shape)
    before = a.copy()
    mapping = None if c["mapping"] is None else {k: v for k, v in c["mapping"]}
    counts = None
    if c["counts"]:
        counts = {}
        order = sorted(set(c["pattern"]))
        if c.get("corder") == "rev":
            order.reverse()
        elif c.get("corder") == "rot":
            order = order[1:] + order[:1]
        for i in order:
            counts[d[i]] = c["pattern"].count(i)
    common = c["common"]
    if c.get("npkeys"):
        counts = {numpy.int64(k): v for k, v in counts.items()}
        common = None if common is None else numpy.int64(common)
    try:
        ix = iindex.from_array(a, counts=counts, common=common, mapping=mapping)
        expected = a if mapping is None else (numpy.vectorize(lambda v: mapping[int(v)], otypes=[numpy.int64])(a) if a.size else a)
        mid = expected
        if c["back"] == "mapping":
            finals = [k[0] for k in ix] + [ix.common]
            bm = {v: u for v, u in zip(finals, c["u"])}
            out = ix.to_array(mapping=bm)
            expected = numpy.vectorize(lambda v: bm[int(v)], otypes=[numpy.int64])(expected) if expected.size else expected
        elif c["back"] == "dtype":
            out = ix.to_array(dtype=numpy.int64)
        else:
            out = ix.to_array()
        ix.validate(True)
    except Exception as ex:
        return {"violates": True, "exception": "%s: %s" % (type(ex).__name__, ex)}
    ok = out.shape == shape and numpy.array_equal(numpy.asarray(out, dtype=object), numpy.asarray(expected, dtype=object))
    why = None if ok else "got %r want %r" % (out.tolist()[:8], expected.tolist()[:8])
    if ok and any(len(v) == 0 for v in ix.values()):
        ok, why = False, "empty entry"
    if ok and c["common"] is None and a.size:
        vals, cnts = numpy.unique(mid, return_counts=True)
        cc = dict(zip(vals.tolist(), cnts.tolist()))
        if cc.get(ix.common, 0) < max(cc.values()):
            ok, why = False, "common %r not most frequent" % (ix.common,)
    if ok and not numpy.array_equal(a, before):
        ok, why = False, "input changed"
    return {"violates": not ok, "why": why}
