"""Concrete oracle for C17: arguments byte-for-byte unchanged; single vs one-pass vs re-use."""
import copy
import numpy
from catii import ccube, xcube, ffuncs, xfuncs
from oracle import o_aggs


def same(a, b):
    if isinstance(a, tuple):
        return all(same(x, y) for x, y in zip(a, b))
    a, b = numpy.asarray(a), numpy.asarray(b)
    return a.shape == b.shape and numpy.allclose(a, b, rtol=1e-9, atol=1e-9, equal_nan=True)


def arrays_of(x):
    if x is None:
        return []
    if isinstance(x, tuple):
        return [a for p in x for a in arrays_of(p)]
    return [x] if isinstance(x, numpy.ndarray) else []


def run(c):
    N, extras, dense = o_aggs.build(c)
    fact, vals, vvalid = o_aggs.fact_of(c)
    weights, w, wv = o_aggs.weights_of(c)
    rma = o_aggs.rma_of(c)
    ish = tuple(c["ishape"])
    side, ignore, trio, fmt = c["side"], c["ignore"], c["trio"], c["fmt"]
    mod, prefix = (ffuncs, "ffunc_") if side == "ccube" else (xfuncs, "xfunc_")
    if side == "ccube":
        dims = [o_aggs.index_of(a, c["commons"][d]) for d, a in enumerate(dense)]
        inputs = [v for ix in dims for v in ix.values()]
    else:
        dims = dense
        inputs = list(dims)
    inputs += arrays_of(fact) + arrays_of(weights)
    before = [a.tobytes() for a in inputs]

    def mk(spec):
        agg, _, pol = spec.partition(":")
        ign = ignore if not pol else (pol == "ign")
        cls = getattr(mod, prefix + agg)
        r = float("nan") if (agg == "valid_count" and fmt == "zero" and not ign) else rma
        if agg == "count":
            return cls(weights, None, ign, r)
        if agg in ("max", "min"):
            return cls(fact, ign, r)
        if agg == "quantile":
            return cls(fact, 0.5, weights, ign, r)
        return cls(fact, weights, ign, r)
    mkcube = ccube if side == "ccube" else xcube
    plain_first = plain_again = None
    stale = None
    try:
        if fact is not None and c["wform"] != "none":
            plain_first = mkcube(dims, interacting_shape=ish).calculate([getattr(mod, prefix + "sum")(fact, None, ignore, rma)])[0]
        cube = (ccube if side == "ccube" else xcube)(dims, interacting_shape=ish)
        fs = [mk(a) for a in trio]
        together = cube.calculate(fs)
        alone = [cube.calculate([mk(a)])[0] for a in trio]
        again = cube.calculate(fs)
        rev = cube.calculate([mk(a) for a in reversed(trio)])[::-1]
        other_n = []
        for a in trio:
            if a.partition(":")[0] == "count" and c["wform"] in ("none", "scalar"):
                import numpy as _np
                big = [_np.concatenate([d, d[:1]]) for d in dense]
                dims_big = [o_aggs.index_of(b, c["commons"][i]) for i, b in enumerate(big)] if side == "ccube" else big
                fresh = mk(a)
                (ccube if side == "ccube" else xcube)(dims_big, interacting_shape=ish).calculate([fresh])
                other_n.append((a, cube.calculate([fresh])[0]))
        if plain_first is not None:
            plain_again = mkcube(dims, interacting_shape=ish).calculate([getattr(mod, prefix + "sum")(fact, None, ignore, rma)])[0]
        changed = [i for i, (a, b) in enumerate(zip(inputs, before)) if a.tobytes() != b]
        if side == "ccube" and not any(extras) and dims:
            from catii import iindex
            cnt = lambda dd: ccube(dd).calculate([ffuncs.ffunc_count(weights, None, ignore, rma)])[0]
            cnt(dims)
            ix = dims[0]
            if len(ix):
                top = max(ix.keys())
                rows = ix[top]
                del ix[top]
                ix[(int(c["E"][0]),)] = rows
                fresh = iindex({k: v.copy() for k, v in ix.items()}, ix.common, ix.shape)
                stale = not same(cnt(dims), cnt([fresh] + list(dims[1:])))
    except Exception as ex:
        return {"violates": True, "exception": "%s: %s" % (type(ex).__name__, ex)}
    bad = [a for a, t, s, g, r in zip(trio, together, alone, again, rev) if not (same(t, s) and same(g, s) and same(r, s))]
    bad += [a + " (after another cube)" for a, r in other_n if not same(r, alone[trio.index(a)])]
    if plain_first is not None and not same(plain_first, plain_again):
        bad.append("unweighted sum of the same fact object after weighted aggregates")
    if stale:
        bad.append("cube over an index edited after an earlier cube saw it")
    return {"violates": bool(changed or bad), "changed_inputs": changed, "unstable": bad}
