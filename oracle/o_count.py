"""Concrete oracle for the unweighted count cube (C02): sparse brute force."""
import itertools
import math
import numpy
from catii import ccube
from oracle.common import build_index, mentioned_rows, cat_lookup


def run(c):
    dims = [build_index(d) for d in c["dims"]]
    N = c["N"]
    E = c["E"]
    D = len(dims)
    rma = {"nan": float("nan"), "pair": (0, False), "zero": 0}[c["fmt"]]
    if c["shape"] == "explicit":
        ish = tuple([E] * D)
    elif c["shape"] == "padded":
        ish = tuple([E + 1] * D)
    else:
        ish = None
    try:
        cube = ccube(dims, interacting_shape=ish)
        res = cube.count(N=N, return_missing_as=rma) if D == 0 else cube.count(return_missing_as=rma)
    except Exception as ex:
        return {"violates": True, "exception": "%s: %s" % (type(ex).__name__, ex)}
    if ish is None:
        ish = tuple(1 + max([d["common"]] + [k[0] for k, v in d["entries"]]) for d in c["dims"])
    vals, valid = (res if c["fmt"] == "pair" else (res, None))
    vals = numpy.asarray(vals)
    extras = [tuple(d["shape"][1:]) for d in c["dims"]]
    sc = tuple(x for e in extras for x in e)
    if vals.shape != sc + ish:
        return {"violates": True, "why": "shape %r != %r" % (vals.shape, sc + ish)}
    looks = [cat_lookup(d) for d in c["dims"]]
    commons = [d["common"] for d in c["dims"]]
    for pos in itertools.product(*[range(x) for x in sc]):
        subs, p = [], 0
        for e in extras:
            subs.append(tuple(pos[p:p + len(e)]))
            p += len(e)
        rows = set()
        for d in range(D):
            rows.update(looks[d].get(subs[d], {}).keys())
        want = numpy.zeros(ish if ish else (), dtype=numpy.int64)
        for r in rows:
            cell = tuple(looks[d].get(subs[d], {}).get(r, commons[d]) for d in range(D))
            want[cell] += 1
        want[tuple(commons)] += N - len(rows)
        for cell in itertools.product(*[range(e) for e in ish]):
            g = vals[pos + cell]
            w = int(want[cell])
            if c["fmt"] == "nan":
                ok = math.isnan(g) if w == 0 else g == w
            elif c["fmt"] == "pair":
                ok = (g == w) and bool(valid[pos + cell]) == (w != 0)
            else:
                ok = g == w
            if not ok:
                return {"violates": True, "cell": list(pos + cell), "got": float(g), "want": w}
    return {"violates": False}
