"""Concrete oracle for ccube.walk (C14): brute force over the dense arrays."""
import itertools
import numpy
from catii import ccube
from oracle.common import build_index, mentioned_rows, cat_lookup


def run(c):
    dims = [build_index(d) for d in c["dims"]]
    commons = [d["common"] for d in c["dims"]]
    look = [cat_lookup(d).get((), {}) for d in c["dims"]]
    rows_m = mentioned_rows(c["dims"])
    E = 1 + max([0] + [k[0] for d in c["dims"] for k, v in d["entries"]] + commons)
    try:
        got = ccube(dims, interacting_shape=tuple([E] * len(dims))).interactions()
    except Exception as ex:
        return {"violates": True, "exception": "%s: %s" % (type(ex).__name__, ex)}
    want = {}
    N = c["N"]
    opts = [[-1] + [v for v in range(E) if v != commons[d]] for d in range(len(dims))]
    for coords in itertools.product(*opts):
        if all(x == -1 for x in coords):
            continue
        rows = [r for r in rows_m if all(x == -1 or look[d].get(r, commons[d]) == x for d, x in enumerate(coords))]
        if rows:
            want[coords] = rows
    gotd = {}
    for coords, rowids in got:
        coords = tuple(int(x) for x in coords)
        if coords in gotd:
            return {"violates": True, "why": "duplicate %r" % (coords,)}
        gotd[coords] = [int(x) for x in rowids]
    return {"violates": gotd != want, "got": repr(sorted(gotd.items()))[:400], "want": repr(sorted(want.items()))[:400]}
