import os
import numpy
from catii.indxio import IndxIO
from oracle.indx_common import entries_of, tmpfile


def run(c):
    p = tmpfile()
    try:
        with open(p, "wb") as f:
            IndxIO.save(f, entries_of(c), c["common"], numpy.dtype(numpy.uint32))
        with open(p, "r+b") as f:
            f.truncate(c["cut"])
        try:
            with open(p, "rb") as f:
                r = IndxIO.load(f)
                r = (dict((k, v.tolist()) for k, v in r[0].items()), r[1])
        except Exception as ex:
            return {"violates": False, "exception": "%s: %s" % (type(ex).__name__, ex)}
        return {"violates": True, "loaded": repr(r)[:300]}
    finally:
        os.unlink(p)
