"""Concrete oracle for the index operations (C06/C07/C15) on the real build: NumPy on the dense array."""
import itertools
import numpy

from catii import iindex
from catii.iindexes import column_stack


def index_of(a, common):
    a = numpy.asarray(a, dtype=numpy.int64)
    ent = {}
    for v in numpy.unique(a).tolist():
        if v == common:
            continue
        for sub in itertools.product(*[range(e) for e in a.shape[1:]]):
            rows = numpy.where(a[(slice(None),) + sub] == v)[0]
            if len(rows):
                ent[(int(v),) + sub] = rows.astype(numpy.uint32)
    return iindex(ent, common, tuple(int(x) for x in a.shape))


def dense_of(ix):
    a = numpy.full(ix.shape, ix.common, dtype=numpy.int64)
    for k, rows in ix.items():
        for r in rows.tolist():
            a[(r,) + tuple(k[1:])] = k[0]
    return a


def wellformed(ix):
    try:
        ix.validate(True)
    except Exception as ex:
        return "validate: %s" % ex
    if not isinstance(ix.shape, tuple) or not all(type(s) is int for s in ix.shape):
        return "shape %r" % (ix.shape,)
    for k, rows in ix.items():
        if len(k) != len(ix.shape) or not all(type(c) is int for c in k):
            return "key %r" % (k,)
        if any(not (0 <= c < e) for c, e in zip(k[1:], ix.shape[1:])):
            return "key %r outside the shape" % (k,)
        if len(rows) == 0:
            return "empty entry %r" % (k,)
        if rows.dtype != numpy.uint32 or (len(rows) and int(rows.max()) >= ix.shape[0]):
            return "entry %r dtype/range" % (k,)
    return None


def most_frequent(ix):
    a = dense_of(ix)
    if a.size == 0:
        return None
    vals, counts = numpy.unique(a, return_counts=True)
    c = dict(zip(vals.tolist(), counts.tolist()))
    if c.get(ix.common, 0) < max(c.values()):
        return "common %r occurs %d times, max is %d" % (ix.common, c.get(ix.common, 0), max(c.values()))
    return None


def run(c):
    cfg, mode, op = c["cfg"], c["mode"], c["op"]
    dense = [numpy.asarray(d, dtype=numpy.int64).reshape(s) for d, s in zip(c["dense"], _shapes(cfg))]
    try:
        why = _run(cfg, mode, op, dense, c)
    except Exception as ex:
        return {"violates": True, "exception": "%s: %s" % (type(ex).__name__, ex)}
    return {"violates": bool(why), "why": why}


def _shapes(cfg):
    if cfg["op"] == "column_stack":
        return [tuple(s) for s in cfg["shapes"]]
    if cfg["op"] == "append":
        return [tuple(cfg["shape"]), tuple(cfg["shape2"])]
    if cfg["op"] in ("union_update", "intersection_update", "difference_update", "equality"):
        return [tuple(cfg["shape"])] * 2
    return [tuple(cfg["shape"])]


def _check(mode, res, want, freq=False):
    if mode == "C06":
        got = dense_of(res)
        if got.shape != want.shape or not numpy.array_equal(got, want):
            return "dense %r != %r" % (got.tolist(), want.tolist())
        return None
    if mode == "C07":
        return wellformed(res)
    if mode == "C15" and freq:
        return most_frequent(res)
    return None


def _run(cfg, mode, op, dense, c):
    m = None if cfg.get("mapping") is None else {int(k): v for k, v in cfg["mapping"].items()}
    if op == "shift_common":
        ix = index_of(dense[0], cfg["common"])
        ix.shift_common() if cfg["new"] is None else ix.shift_common(cfg["new"])
        if mode == "C06" and cfg["new"] is not None and ix.common != cfg["new"]:
            return "common not set"
        return _check(mode, ix, dense[0], freq=cfg["new"] is None)
    if op == "append":
        a, b = index_of(dense[0], cfg["common"]), index_of(dense[1], cfg["common2"])
        before = dense_of(b)
        a.append(b)
        want = numpy.concatenate([dense[0], dense[1]])
        w = _check(mode, a, want, freq=True)
        if w:
            return w
        if mode == "C06" and not numpy.array_equal(dense_of(b), before):
            return "operand changed"
        if mode == "C15":
            tw = index_of(want, a.common)
            if not (a == tw) or (a != tw):
                return "append result != directly built twin (or != inconsistent)"
        return None
    if op == "update":
        ix = index_of(dense[0], cfg["common"])
        assign = {tuple(k): v for k, v in c["assign"]}
        newv = {tuple(k): v for k, v in c["newv"]}
        want = dense[0].copy()
        ent = {}
        for idx, on in sorted(assign.items()):
            if on:
                want[idx] = newv[idx]
                ent.setdefault((newv[idx],) + idx[1:], []).append(idx[0])
        ent = {k: numpy.array(sorted(v), dtype=numpy.uint32) for k, v in ent.items()}
        ix.update(ent)
        if mode == "C06" and ix.common != cfg["common"]:
            return "common shifted"
        return _check(mode, ix, want)
    if op == "filtered":
        ix = index_of(dense[0], cfg["common"])
        mask = numpy.array(c["mask"], dtype=bool)
        res = ix.filtered(mask, int(mask.sum()))
        return _check(mode, res, dense[0][mask], freq=True)
    if op == "sliced":
        ix = index_of(dense[0], cfg["common"])
        res = ix.sliced(*cfg["orders"])
        want = dense[0]
        sl = [slice(None)]
        for i in range(1, want.ndim):
            o = cfg["orders"][i - 1] if i - 1 < len(cfg["orders"]) else None
            sl.append(slice(None) if o is None else o)
        # apply axis by axis to avoid NumPy's fancy-index broadcasting
        out = want
        ax = 1
        for o in sl[1:]:
            if isinstance(o, slice):
                ax += 1
            elif isinstance(o, int):
                out = numpy.take(out, o, axis=ax)
            else:
                out = numpy.take(out, o, axis=ax)
                ax += 1
        return _check(mode, res, out)
    if op == "slices1d":
        ix = index_of(dense[0], cfg["common"])
        got = list(ix.slices1d())
        exp = list(itertools.product(*[range(e) for e in dense[0].shape[1:]]))
        if mode == "C06" and sorted(tuple(k) for k, s in got) != exp:
            return "coords %r" % ([tuple(k) for k, s in got],)
        for k, s in got:
            w = _check(mode, s, dense[0][(slice(None),) + tuple(k)])
            if w:
                return "slice %r: %s" % (tuple(k), w)
        return None
    if op == "reindexed":
        ix = index_of(dense[0], cfg["common"])
        res = ix.reindexed(m, copy=cfg["copy"], shift=cfg["shift"], assume_unique=cfg["assume_unique"])
        if m is None:
            listed = sorted({k[0] for k in ix})
            m = {v: i for i, v in enumerate(listed)}
        want = numpy.vectorize(lambda v: m.get(int(v), int(v)), otypes=[numpy.int64])(dense[0]) if dense[0].size else dense[0]
        return _check(mode, res, want)
    if op == "collapsed":
        ix = index_of(dense[0], cfg["common"])
        prec = list(cfg["precedence"])
        res = ix.collapsed(prec, m)
        d = dense[0]
        if m is not None and d.size:
            d = numpy.vectorize(lambda v: m.get(int(v), int(v)), otypes=[numpy.int64])(d)
        want = numpy.array([next((v for v in prec[:-1] if v in row.tolist()), prec[-1]) for row in d], dtype=numpy.int64).reshape((d.shape[0],))
        return _check(mode, res, want, freq=True)
    if op == "copy":
        ix = index_of(dense[0], cfg["common"])
        res = ix.copy()
        if mode == "C06" and any(numpy.shares_memory(res[k], ix[k]) for k in ix):
            return "copy shares storage"
        return _check(mode, res, dense[0])
    if op == "column_stack":
        ixs = [index_of(d, cm) for d, cm in zip(dense, cfg["commons"])]
        before = [dense_of(i) for i in ixs]
        commons_before = [i.common for i in ixs]
        res = column_stack(ixs, new_common=cfg["new"], copy=cfg["copy"])
        want = numpy.column_stack(dense)
        w = _check(mode, res, want)
        if w:
            return w
        if mode == "C06":
            if any(not numpy.array_equal(dense_of(i), b) or i.common != cb for i, b, cb in zip(ixs, before, commons_before)):
                return "input changed"
            if cfg["new"] is not None and res.common != cfg["new"]:
                return "requested common ignored"
        return None
    if op in ("union_update", "intersection_update", "difference_update"):
        a, b = index_of(dense[0], cfg["common"]), index_of(dense[1], cfg["common"])
        pre = {k: set(v.tolist()) for k, v in a.items()}
        other = {k: set(v.tolist()) for k, v in b.items()}
        getattr(a, op)(b)
        for k in set(pre) | set(other):
            A, B = pre.get(k, set()), other.get(k, set())
            want = A | B if op == "union_update" else A & B if op == "intersection_update" else A - B
            got = set(a[k].tolist()) if k in a else set()
            if mode == "C06" and got != want:
                return "%s entry %r: %r != %r" % (op, k, sorted(got), sorted(want))
        if mode == "C07":
            for k, rows in a.items():
                if len(rows) == 0 or rows.dtype != numpy.uint32 or rows.tolist() != sorted(set(rows.tolist())):
                    return "entry %r malformed" % (k,)
        return None
    if op == "queries":
        ix = index_of(dense[0], cfg["common"])
        cols = [()] if dense[0].ndim == 1 else [(j,) for j in range(dense[0].shape[1])]
        for sub in cols:
            want = numpy.where(dense[0][(slice(None),) + sub] == cfg["common"])[0].tolist()
            if ix.common_rowids(*sub).tolist() != want:
                return "common_rowids%r" % (sub,)
            g = ix.get((cfg["common"],) + sub, None, force=True)
            if (g is None) != (not want) or (g is not None and g.tolist() != want):
                return "get force %r" % (sub,)
        items = list(ix.items(force=True))
        if [k for k, v in items] != list(ix.keys()) + [(cfg["common"],) + s for s in cols]:
            return "items(force) keys"
        return None
    if op == "equality":
        a, b = index_of(dense[0], cfg["common"]), index_of(dense[1], cfg["common2"])
        should = cfg["common"] == cfg["common2"] and numpy.array_equal(dense[0], dense[1])
        eq = a == b
        ne = a != b
        if eq != should or ne != (not eq) or (b == a) != eq or not (a == a) or (a == 5) is not False:
            return "== %r (expected %r), != %r" % (eq, should, ne)
        from catii import iindex
        empty = iindex({}, cfg["common"], tuple(cfg["shape"]))
        for left, x in [(a, {3: "hi"}), (a, 5), (a, None), (a, {}), (empty, {}), (empty, [])]:
            if (left == x) is not False or (left != x) is not True or (x == left) is not False or (x != left) is not True:
                return "comparison with the non-index %r: == %r, != %r (reflected: %r, %r)" % (x, left == x, left != x, x == left, x != left)
        return None
    return "unknown op"
