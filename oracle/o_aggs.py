"""Concrete oracle for the shared aggregates (C03/C04/C05/C13/C17): both cube types on the real
build against a direct per-cell computation with exact rationals."""
import itertools
import math
from fractions import Fraction

import numpy

from catii import ccube, xcube, iindex, ffuncs, xfuncs
from oracle.codec import dec


def build(c):
    N = c["N"]
    extras = [tuple(e) for e in c["extras"]]
    dense = []
    for d, per in enumerate(c["cats"]):
        a = numpy.zeros((N,) + extras[d], dtype=numpy.dtype(c.get("dense_dtype", "int64")))
        for sub, cs in per:
            for r, v in enumerate(cs):
                a[(r,) + tuple(sub)] = v
        dense.append(a)
    return N, extras, dense


def index_of(a, common):
    ent = {}
    for v in numpy.unique(a).tolist():
        if v == common:
            continue
        for sub in itertools.product(*[range(e) for e in a.shape[1:]]):
            rows = numpy.where(a[(slice(None),) + sub] == v)[0]
            if len(rows):
                ent[(int(v),) + sub] = rows.astype(numpy.uint32)
    return iindex(ent, common, tuple(int(x) for x in a.shape))


def fact_of(c):
    form = c.get("fact_form")
    if form is None:
        return None, None, None
    N, K = c["N"], c["K"]
    vals = dec(c["vals"], as_float=False)
    shape = (N, K) if (K > 1 or c.get("force2d")) else (N,)
    valid = numpy.array(c["vvalid"], dtype=bool).reshape(shape)
    if form == "intpair":
        arr = numpy.array([[int(v) for v in row] for row in vals], dtype=numpy.int64).reshape(shape)
        return (arr, valid), vals, c["vvalid"]
    if form in ("dt", "dtpair"):
        arr = numpy.array([[int(v) for v in row] for row in vals], dtype=numpy.int64).reshape(shape).astype("M8[D]")
        if form == "dt":
            arr[~valid] = numpy.datetime64("NaT")
            return arr, vals, c["vvalid"]
        hid = numpy.array(c["hidden_nan"], dtype=bool).reshape(shape)
        arr[~valid & hid] = numpy.datetime64("NaT")
        return (arr, valid), vals, c["vvalid"]
    arr = numpy.array([[float(v) for v in row] for row in vals], dtype=float).reshape(shape)
    if form == "nan":
        arr[~valid] = numpy.nan
        return arr, vals, c["vvalid"]
    hid = numpy.array(c["hidden_nan"], dtype=bool).reshape(shape)
    arr[~valid & hid] = numpy.nan
    return (arr, valid), vals, c["vvalid"]


def weights_of(c):
    wf = c["wform"]
    N = c["N"]
    if wf == "none":
        return None, [Fraction(1)] * N, [True] * N
    if wf == "scalar":
        w = dec(c["w"], as_float=False)
        return float(w), [Fraction(w)] * N, [True] * N
    w = dec(c["w"], as_float=False)
    wv = c["wvalid"]
    if c.get("wdtype") == "int64":
        arr = numpy.array([int(x) for x in w], dtype=numpy.int64)
        if wf == "array":
            return arr, [Fraction(x) for x in w], wv
        return (arr, numpy.array(wv, dtype=bool)), [Fraction(x) for x in w], wv
    arr = numpy.array([float(x) for x in w], dtype=float)
    if wf == "array":
        arr[~numpy.array(wv, dtype=bool)] = numpy.nan
        return arr, [Fraction(x) for x in w], wv
    hid = numpy.array(c["whidden_nan"], dtype=bool)
    arr[~numpy.array(wv, dtype=bool) & hid] = numpy.nan
    return (arr, numpy.array(wv, dtype=bool)), [Fraction(x) for x in w], wv


def rma_of(c):
    return {"nan": float("nan"), "zero": 0, "pair": (c["sentinel"], False)}[c["fmt"]]


def direct(c, dense, agg, ignore, ishape, vals, vvalid, w, wv):
    """dict idx -> (missing, value Fraction)"""
    N = c["N"]
    extras = [tuple(e) for e in c["extras"]]
    sc = tuple(x for e in extras for x in e)
    K = c.get("K", 1) if agg != "count" and c.get("fact_form") else 1
    kshape = (K,) if (agg != "count" and c.get("fact_form") and (K > 1 or c.get("force2d"))) else ()
    out = {}
    for pos in itertools.product(*[range(x) for x in sc]):
        subs, p = [], 0
        for e in extras:
            subs.append(tuple(pos[p:p + len(e)]))
            p += len(e)
        for cell in itertools.product(*[range(e) for e in ishape]):
            rows = [r for r in range(N) if all(int(dense[d][(r,) + subs[d]]) == cell[d] for d in range(len(dense)))]
            for k in range(K):
                ok = [r for r in rows if (agg == "count" or vvalid[r][k]) and wv[r]]
                missing = (not rows) or ((not ok) if ignore else (len(ok) != len(rows)))
                wsum = sum((w[r] for r in ok), Fraction(0))
                if agg in ("count", "valid_count"):
                    value = wsum
                else:
                    num = sum((Fraction(vals[r][k]) * w[r] for r in ok), Fraction(0))
                    if agg == "sum":
                        value = num
                    else:
                        if wsum == 0:
                            missing = True
                            value = Fraction(0)
                        else:
                            value = num / wsum
                out[pos + cell + ((k,) if kshape else ())] = (missing, value)
    return out, sc + tuple(ishape) + kshape


def check(res, want, shape, fmt, sentinel, scale, mask_only=False):
    if fmt == "pair":
        vals, valid = res
        vals, valid = numpy.asarray(vals), numpy.asarray(valid)
    else:
        vals, valid = numpy.asarray(res), None
    if vals.shape != shape and not (shape == () and vals.shape in ((), (1,))):
        return "shape %r != %r" % (vals.shape, shape)
    vals = vals.reshape(shape)
    if valid is not None:
        valid = valid.reshape(shape)
    tol = 1e-9 * max(1.0, scale)
    for idx, (missing, value) in want.items():
        g = float(vals[idx])
        if mask_only:
            ok = (math.isnan(g) == missing) if fmt == "nan" else ((bool(valid[idx]) == (not missing)) if fmt == "pair" else True)
        elif fmt == "nan":
            ok = math.isnan(g) if missing else (not math.isnan(g) and abs(g - float(value)) <= tol)
        elif fmt == "pair":
            ok = bool(valid[idx]) == (not missing) and (g == sentinel if missing else abs(g - float(value)) <= tol)
        else:
            ok = (g == 0) if missing else abs(g - float(value)) <= tol
        if not ok:
            return "cell %r: got %r%s, want %s" % (idx, g, "" if valid is None else " valid=%r" % bool(valid[idx]), "missing" if missing else float(value))
    return None


def aggregate(cube, mod, prefix, agg, fact, weights, ignore, rma, N=None):
    cls = getattr(mod, prefix + agg)
    f = cls(weights, N, ignore, rma) if agg == "count" else cls(fact, weights, ignore, rma)
    return cube.calculate([f])[0]


def run(c):
    if c.get("residue"):
        return run_residue(c)
    return run_plain(c)


def run_residue(c):
    """Rounding-residue candidates: rescale the weights by non-dyadic factors (and perturb them) until the real build's
    set of missing cells differs from the rule; mask only."""
    import copy
    from oracle.codec import enc
    tried = 0
    base_w = dec(c["w"], as_float=False) if c.get("w") is not None else None
    # fixed non-dyadic weight sets (different groupings of the same addends round differently)
    if isinstance(base_w, list):
        import itertools as _it
        pool = [Fraction(1, 10), Fraction(2, 10), Fraction(3, 10), Fraction(7, 10), Fraction(11, 10), Fraction(13, 100)]
        for perm in _it.islice(_it.permutations(pool, len(base_w)), 0, 120, 3):
            cc = copy.deepcopy(c)
            cc.pop("residue")
            cc["w"] = enc(list(perm))
            cc["mask_only"] = True
            tried += 1
            r = run_plain(cc)
            if r.get("violates"):
                r["weights_tried"] = [str(x) for x in perm]
                return r
    # the residue the solver chose is not tied to the model's categories either: which rows share a cell decides how the
    # addends are grouped, so the other category assignments within the same bounds are searched as well (plain
    # one-axis dimensions only, explicit or inferred shape; bounded number of runs)
    if isinstance(base_w, list) and all(len(per) == 1 and not tuple(per[0][0]) for per in c["cats"]):
        import itertools as _it
        N, D = c["N"], len(c["cats"])
        ext = [int(x) for x in c["ishape"]] if c.get("ishape") is not None else [max(per[0][1]) + 1 for per in c["cats"]]
        import random as _random
        perms = list(_it.permutations(pool, len(base_w)))
        _random.Random(len(base_w)).shuffle(perms)          # a fixed, spread-out sample of the weight assignments
        perms = perms[:24]
        # two passes: with the model's validity pattern, then with every weight and fact valid (more addends per cell)
        for allvalid, assign in [(av, a) for av in (False, True) for a in _it.product(*[range(ext[d]) for d in range(D) for _ in range(N)])]:
            if not allvalid:
                budget = 3000 if assign == tuple([0] * (N * D)) else budget
            elif assign == tuple([0] * (N * D)):
                budget = 3000
            if c.get("ishape") is None and any(max(assign[d * N:(d + 1) * N]) != ext[d] - 1 for d in range(D)):
                continue
            for perm in perms:
                if budget <= 0:
                    break
                budget -= 1
                cc = copy.deepcopy(c)
                cc.pop("residue")
                if allvalid:
                    cc["wvalid"] = [True] * N
                    if cc.get("vvalid") is not None:
                        cc["vvalid"] = [[True] * len(row) for row in cc["vvalid"]]
                        # and non-zero fact values (a zero sum over a residue is 0/0 = NaN, which reads as "missing")
                        cc["vals"] = [[enc(Fraction(r + 1 + 2 * k)) for k in range(len(row))] for r, row in enumerate(cc["vvalid"])]
                cc["cats"] = [[[[], list(assign[d * N:(d + 1) * N])]] for d in range(D)]
                cc["w"] = enc(list(perm))
                cc["mask_only"] = True
                tried += 1
                r = run_plain(cc)
                if r.get("violates"):
                    r["weights_tried"] = [str(x) for x in perm]
                    r["categories_tried"] = cc["cats"]
                    return r
    for fac in (Fraction(1, 10), Fraction(3, 10), Fraction(7, 10), Fraction(1, 3), Fraction(1, 7), Fraction(11, 100), Fraction(1, 1000)):
        for bump in (0, 1, 2):
            cc = copy.deepcopy(c)
            cc.pop("residue")
            if base_w is not None and isinstance(base_w, list):
                cc["w"] = enc([Fraction(x) * fac + Fraction(bump * (i + 1), 10) * fac for i, x in enumerate(base_w)])
            elif base_w is not None:
                cc["w"] = enc(Fraction(base_w) * fac)
            cc["mask_only"] = True
            tried += 1
            r = run_plain(cc)
            if r.get("violates"):
                r["rescaled_weights"] = cc.get("w")
                return r
    return {"violates": False, "note": "residue not observable with %d weight rescalings" % tried}


def run_plain(c):
    N, extras, dense = build(c)
    fact, vals, vvalid = fact_of(c)
    weights, w, wv = weights_of(c)
    agg, ignore = c["agg"], c["ignore"]
    rma = rma_of(c)
    commons = c["commons"]
    ish = tuple(c["ishape"]) if c.get("ishape") is not None else None
    scale = float(sum(abs(Fraction(v)) * w[r] for r, row in enumerate(vals or []) for v in row)) if vals else float(N)
    out = {}
    for side in c.get("sides", ["ccube", "xcube"]):
        try:
            if side == "ccube":
                cube = ccube([index_of(a, commons[d]) for d, a in enumerate(dense)], interacting_shape=ish)
                res = aggregate(cube, ffuncs, "ffunc_", agg, fact, weights, ignore, rma, None if dense else N)
            else:
                cube = xcube(dense, interacting_shape=ish)
                res = aggregate(cube, xfuncs, "xfunc_", agg, fact, weights, ignore, rma, None if dense else N)
        except Exception as ex:
            out[side] = "exception %s: %s" % (type(ex).__name__, ex)
            continue
        want, shape = direct(c, dense, agg, ignore, tuple(int(x) for x in cube.interacting_shape), vals, vvalid, w, wv)
        out[side] = check(res, want, shape, c["fmt"], c["sentinel"], scale, mask_only=c.get("mask_only"))
    bad = {k: v for k, v in out.items() if v}
    return {"violates": bool(bad), "why": bad}
