"""Concrete oracle for C16 on the real build.

Without a recorded conflict: the real ThreadPool result must equal the serial result.
With a conflict (found by the symbolic footprint analysis): deterministic interleaving search --
tasks run in real threads gated by sys.settrace events (line level, then opcode level); schedule
'run task A for k steps, then task B to completion, then A, then the rest'.  A divergence from the
serial result is the violation; no divergence means the conflict is not observable."""
import sys
import threading

import numpy

import catii.ccubes
import catii.xcubes
from catii import ccube, xcube, ffuncs, xfuncs
from oracle import o_aggs


def same(a, b):
    if isinstance(a, (tuple, list)):
        return len(a) == len(b) and all(same(x, y) for x, y in zip(a, b))
    a, b = numpy.asarray(a), numpy.asarray(b)
    return a.shape == b.shape and numpy.array_equal(a, b, equal_nan=True)


class Sched:
    """Cooperative scheduler: exactly one task thread runs; switch decisions at trace events."""

    def __init__(self, plan, opcode):
        self.plan = plan            # (A, B, k)
        self.opcode = opcode
        self.cv = threading.Condition()
        self.current = None
        self.steps = {}
        self.done = set()
        self.order = []

    def trace(self, tid):
        def local(frame, event, arg):
            if event == ("opcode" if self.opcode else "line"):
                self.step(tid)
            return local

        def glob(frame, event, arg):
            if "catii" not in frame.f_code.co_filename:
                return None
            if self.opcode:
                frame.f_trace_opcodes = True
            return local
        return glob

    def step(self, tid):
        A, B, k = self.plan
        self.steps[tid] = self.steps.get(tid, 0) + 1
        if tid == A and self.steps[tid] == k and B not in self.done:
            with self.cv:
                self.current = B
                self.cv.notify_all()
                while self.current != A:
                    self.cv.wait()

    def run(self, f, items):
        A, B, k = self.plan
        n = len(items)
        rest = [t for t in range(n) if t not in (A, B)]
        errs = []

        def body(tid):
            with self.cv:
                while self.current != tid:
                    self.cv.wait()
            sys.settrace(self.trace(tid))
            try:
                f(items[tid])
            except Exception as ex:
                errs.append(ex)
            finally:
                sys.settrace(None)
                with self.cv:
                    self.done.add(tid)
                    nxt = None
                    if tid == B and A not in self.done:
                        nxt = A
                    elif tid == A and B not in self.done:
                        nxt = B
                    if nxt is None:
                        nxt = next((t for t in [A, B] + rest if t not in self.done), None)
                    self.current = nxt
                    self.cv.notify_all()
        threads = [threading.Thread(target=body, args=(t,), daemon=True) for t in range(n)]
        for t in threads:
            t.start()
        with self.cv:
            self.current = A
            self.cv.notify_all()
        for t in threads:
            t.join(20)
            if t.is_alive():
                raise RuntimeError("scheduler deadlock")
        if errs:
            raise errs[0]


def run(c):
    N, extras, dense = o_aggs.build(c)
    fact, vals, vvalid = o_aggs.fact_of(c)
    weights, w, wv = o_aggs.weights_of(c)
    ish = tuple(c["ishape"])
    side, ignore, aggl = c["side"], c["ignore"], c["aggl"]
    mod, prefix = (ffuncs, "ffunc_") if side == "ccube" else (xfuncs, "xfunc_")

    def mkcube():
        if side == "ccube":
            return ccube([o_aggs.index_of(a, c["commons"][d]) for d, a in enumerate(dense)], interacting_shape=ish)
        return xcube(dense, interacting_shape=ish)

    def mkfs():
        out = []
        for agg in aggl:
            cls = getattr(mod, prefix + agg)
            if agg == "count":
                out.append(cls(weights, None, ignore, float("nan")))
            elif agg in ("max", "min"):
                out.append(cls(fact, ignore, float("nan")))
            elif agg == "quantile":
                out.append(cls(fact, 0.5, weights, ignore, float("nan")))
            else:
                out.append(cls(fact, weights, ignore, float("nan")))
        return out
    try:
        serial = mkcube().calculate(mkfs())
        cube = mkcube()
        cube.parallel = True
        pooled = cube.calculate(mkfs())
    except Exception as ex:
        return {"violates": True, "exception": "%s: %s" % (type(ex).__name__, ex)}
    if not same(serial, pooled):
        return {"violates": True, "why": "real ThreadPool result differs from the serial result"}
    if not c.get("conflict"):
        return {"violates": False}
    # deterministic interleaving search
    ntasks = 1
    for e in extras:
        for x in e:
            ntasks *= x
    tried = 0
    for opcode in (False, True):
        for A in range(ntasks):
            for B in range(ntasks):
                if A == B:
                    continue
                k = 1
                limit = 4000 if opcode else 600
                while k <= limit:
                    sched = Sched((A, B, k), opcode)

                    class P:
                        def __init__(self, n=None):
                            pass

                        def map(self, f, items):
                            sched.run(f, list(items))
                            return []

                        def close(self):
                            pass
                    cube = mkcube()
                    cube.parallel = True
                    saved = catii.ccubes.multiprocessing.pool.ThreadPool
                    try:
                        if side == "ccube":
                            catii.ccubes.multiprocessing.pool.ThreadPool = P
                        else:
                            cube.pool_class = P
                        res = cube.calculate(mkfs())
                    except Exception as ex:
                        return {"violates": True, "schedule": [A, B, k, opcode], "exception": "%s: %s" % (type(ex).__name__, ex)}
                    finally:
                        catii.ccubes.multiprocessing.pool.ThreadPool = saved
                    tried += 1
                    if tried > 8000:
                        return {"violates": False, "note": "conflict not observable in %d interleavings (search budget)" % tried}
                    if not same(serial, res):
                        return {"violates": True, "schedule": {"first": A, "k_steps": k, "then": B, "opcode_level": opcode},
                                "why": "interleaved result differs from the serial result"}
                    if sched.steps.get(A, 0) < k:
                        break
                    k += 1 if k < 500 else max(1, k // 50)
    return {"violates": False, "note": "conflict not observable in %d interleavings" % tried}
