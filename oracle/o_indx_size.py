"""Size-field replay without materialising data: duck-typed arrays over a sparse file."""
import os
import struct
import warnings
import numpy
from catii.indxio import IndxIO
from oracle.indx_common import tmpfile


class Big:
    def __init__(self, n):
        self.n = n
        self.dtype = numpy.dtype(numpy.uint32)

    def __len__(self):
        return self.n

    def tofile(self, f):
        f.seek(self.n * 4, 1)


def run(c):
    p = tmpfile()
    try:
        ent = {(i + 1,): Big(n) for i, n in enumerate(c["lens"])}
        try:
            with warnings.catch_warnings():
                warnings.simplefilter("ignore")
                with open(p, "wb") as f:
                    IndxIO.save(f, ent, 0, numpy.dtype(numpy.uint32))
                    end = f.tell()
        except Exception as ex:
            return {"violates": True, "exception": "%s: %s" % (type(ex).__name__, ex)}
        with open(p, "rb") as f:
            f.seek(8)
            size = struct.unpack("<Q", f.read(8))[0]
        return {"violates": size != end - 16, "recorded": size, "payload": end - 16}
    finally:
        os.unlink(p)
