import os
import numpy
from catii.indxio import IndxIO
from oracle.indx_common import entries_of, same, tmpfile


def run(c):
    p = tmpfile()
    try:
        try:
            with open(p, "wb") as f:
                IndxIO.save(f, entries_of(c), c["common"], numpy.dtype(numpy.uint32))
            with open(p, "rb") as f:
                loaded = IndxIO.load(f)
                ok, why = same(loaded, c)
                dt_ok = loaded[2] == numpy.uint32
        except Exception as ex:
            return {"violates": True, "exception": "%s: %s" % (type(ex).__name__, ex)}
        return {"violates": not (ok and dt_ok), "why": why}
    finally:
        os.unlink(p)
