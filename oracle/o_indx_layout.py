import os
import numpy
from catii.indxio import IndxIO
from oracle.indx_common import entries_of, spec_encode, tmpfile


def run(c):
    p = tmpfile()
    try:
        try:
            with open(p, "wb") as f:
                IndxIO.save(f, entries_of(c), c["common"], numpy.dtype(numpy.uint32))
        except Exception as ex:
            return {"violates": True, "exception": "%s: %s" % (type(ex).__name__, ex)}
        got = open(p, "rb").read()
        want = spec_encode(c["keys"], c["common"], c["rows"], c["arity"])
        return {"violates": got != want, "got": got.hex(), "want": want.hex()}
    finally:
        os.unlink(p)
