"""JSON codec for concrete cases shared by the engine (python3-vt) and the oracle runner (/venv)."""
import math
from fractions import Fraction


def enc(x):
    if isinstance(x, bool) or x is None or isinstance(x, (int, str)):
        return x
    if isinstance(x, Fraction):
        if x.denominator == 1:
            return {"q": [int(x.numerator), 1]}
        return {"q": [int(x.numerator), int(x.denominator)]}
    if isinstance(x, float):
        if math.isnan(x):
            return {"f": "nan"}
        if math.isinf(x):
            return {"f": "inf" if x > 0 else "-inf"}
        return {"q": list(Fraction(x).as_integer_ratio())}
    if isinstance(x, (list, tuple)):
        return [enc(v) for v in x]
    if isinstance(x, dict):
        return {"d": [[enc(k), enc(v)] for k, v in x.items()]}
    raise TypeError("enc: %r" % type(x))


def dec(x, as_float=True):
    if isinstance(x, list):
        return [dec(v, as_float) for v in x]
    if isinstance(x, dict):
        if "q" in x:
            fr = Fraction(x["q"][0], x["q"][1])
            return float(fr) if as_float else fr
        if "f" in x:
            return float(x["f"])
        if "d" in x:
            return {(tuple(dec(k, as_float)) if isinstance(k, list) else dec(k, as_float)): dec(v, as_float) for k, v in x["d"]}
    return x
