import numpy
from catii.iindexes import fit_dtype

INTS = [numpy.int8, numpy.int16, numpy.int32, numpy.int64]
UINTS = [numpy.uint8, numpy.uint16, numpy.uint32, numpy.uint64]


def run(c):
    args = c["args"]
    try:
        dt = fit_dtype(*args)
    except Exception as ex:
        return {"violates": True, "exception": "%s: %s" % (type(ex).__name__, ex)}
    lo = min(args + [0])
    hi = max(args + [0])
    ladder = INTS if lo < 0 else UINTS
    want = None
    for t in ladder:
        i = numpy.iinfo(t)
        if int(i.min) <= lo and hi <= int(i.max):
            want = numpy.dtype(t)
            break
    return {"violates": dt != want, "got": str(dt), "want": str(want)}
