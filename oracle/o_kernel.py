"""Concrete oracle for the set kernels (C08/C09): Python set algebra."""
import numpy

from catii import set_operations as so


def arr(x):
    return None if x is None else numpy.array(x, dtype=numpy.uint32)


def run(c):
    f = c["func"]
    strict = c.get("strict")
    try:
        if f == "set_union_merge_many":
            arrays = [arr(a) for a in c["arrays"]]
            want = sorted(set(x for a in c["arrays"] for x in a))
            got = so.set_union_merge_many(arrays)
        else:
            a, b = arr(c["a"]), arr(c["b"])
            sa = set(c["a"] or [])
            sb = set(c["b"] or [])
            base = {"set_intersect_merge_np": "and", "intersection": "and", "set_union_merge_np": "or", "union": "or",
                    "set_difference_merge_np": "andnot", "difference": "andnot"}[f]
            want = sorted(sa & sb if base == "and" else sa | sb if base == "or" else sa - sb)
            got = getattr(so, f)(a, b, *c.get("flags", []))
            if f in ("intersection", "union", "difference"):
                none_in = (c["a"] is None or c["b"] is None) if f == "intersection" else \
                    (c["a"] is None and c["b"] is None) if f == "union" else (c["a"] is None)
                if none_in or not want:
                    ok = got is None
                    return {"violates": (not ok) and not strict, "got": None if got is None else got.tolist(), "want": None}
                if got is None:
                    return {"violates": not strict, "got": None, "want": want}
    except IndexError as ex:
        return {"violates": True, "exception": "IndexError: %s" % ex}
    except Exception as ex:
        return {"violates": not strict, "exception": "%s: %s" % (type(ex).__name__, ex)}
    if strict:
        return {"violates": False, "got": got.tolist()}
    ok = got.dtype == numpy.uint32 and got.tolist() == want
    return {"violates": not ok, "got": got.tolist(), "want": want, "dtype": str(got.dtype)}
