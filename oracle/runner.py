"""Concrete replay runner: executed by /venv/bin/python against a scratch build of the working tree.
Usage: runner.py cases.json   -> prints 'RESULTS <json list>'."""
import json
import os
import sys
import traceback

sys.path.insert(0, os.path.dirname(os.path.dirname(os.path.abspath(__file__))))


def main():
    cases = json.load(open(sys.argv[1]))
    out = []
    for c in cases:
        kind = c.get("kind")
        try:
            mod = __import__("oracle.o_" + kind, fromlist=["run"])
            out.append(mod.run(c))
        except Exception as ex:
            out.append({"violates": False, "runner_error": "%s: %s" % (type(ex).__name__, ex),
                        "trace": traceback.format_exc()[-1500:], "pred_ok": False})
    print("RESULTS " + json.dumps(out, default=str))


if __name__ == "__main__":
    main()
